(** Proofs about model/Image.v (C15).  The statements of the main lemmas (those listed
    in props/C15.v) are fixed; everything else is auxiliary. *)
From Coq Require Import QArith Qround Qabs Qpower Lia Lqa Permutation.
From V.lib Require Import Prelude.
From V.model Require Import PackUri Image.
From V.proofs Require Import Prelude_proofs PackUri_proofs.
Local Open Scope Z_scope.

(* ================================================================== decimal text *)

Definition dstep (acc c : N) : N := (acc * 10 + (c - 48))%N.

Lemma dec_value_fold s : dec_value s = fold_left dstep s 0%N.
Proof. reflexivity. Qed.

Lemma dec_digits_spec : forall f n acc, (n < 2 ^ N.of_nat f)%N ->
  exists pre, dec_digits_fuel (S f) n acc = pre ++ acc /\ pre <> [] /\
    forallb is_digit pre = true /\
    forall a, fold_left dstep pre a = (a * 10 ^ N.of_nat (length pre) + n)%N.
Proof.
  induction f as [|f IH]; intros n acc Hn.
  - assert (n = 0%N) by (simpl in Hn; lia). subst n.
    exists [48%N]. split; [reflexivity|]. split; [discriminate|]. split; [reflexivity|].
    intros a. simpl. unfold dstep. lia.
  - cbn [dec_digits_fuel]. destruct (n <? 10)%N eqn:E.
    + apply N.ltb_lt in E. exists [(48 + n mod 10)%N].
      rewrite N.mod_small by lia. split; [reflexivity|]. split; [discriminate|]. split.
      * cbn [forallb]. unfold is_digit. rewrite andb_true_r. apply andb_true_iff; split; apply N.leb_le; lia.
      * intros a. cbn [fold_left length]. unfold dstep. change (N.of_nat 1) with 1%N. lia.
    + apply N.ltb_ge in E.
      assert (Hq : (n / 10 < 2 ^ N.of_nat f)%N).
      { apply N.div_lt_upper_bound; [lia|].
        replace (N.of_nat (S f)) with (N.succ (N.of_nat f)) in Hn by lia.
        rewrite N.pow_succ_r' in Hn. lia. }
      destruct (IH (n / 10)%N ((48 + n mod 10)%N :: acc) Hq) as [pre [E1 [E2 [E3 E4]]]].
      exists (pre ++ [(48 + n mod 10)%N]). rewrite <- app_assoc. cbn [app]. split; [exact E1|].
      split; [destruct pre; discriminate|]. split.
      * rewrite forallb_app, E3. cbn [forallb andb]. unfold is_digit. rewrite andb_true_r.
        assert (n mod 10 < 10)%N by (apply N.mod_lt; lia).
        clear -H. set (m := (n mod 10)%N) in *. apply andb_true_iff; split; apply N.leb_le; lia.
      * intros a. rewrite fold_left_app, E4. cbn [fold_left]. unfold dstep.
        rewrite app_length. cbn [length].
        replace (N.of_nat (length pre + 1)) with (N.succ (N.of_nat (length pre))) by lia.
        rewrite N.pow_succ_r'.
        pose proof (N.div_mod n 10) as Hdm. clear -Hdm.
        set (m := (n mod 10)%N) in *. set (q := (n / 10)%N) in *.
        set (P := (10 ^ N.of_nat (length pre))%N). 
        replace (48 + m - 48)%N with m by lia. lia.
Qed.

Lemma dec_of_N_spec n :
  dec_of_N n <> [] /\ forallb is_digit (dec_of_N n) = true /\ dec_value (dec_of_N n) = n.
Proof.
  unfold dec_of_N.
  assert (Hn : (n < 2 ^ N.of_nat (N.to_nat (N.size n)))%N).
  { rewrite N2Nat.id. destruct n as [|p]; [simpl; lia|].
    apply N.size_gt. }
  destruct (dec_digits_spec _ n [] Hn) as [pre [E1 [E2 [E3 E4]]]].
  rewrite E1, app_nil_r. split; [exact E2|]. split; [exact E3|].
  rewrite dec_value_fold, E4. lia.
Qed.

(* ================================================================== sorting, first free index *)

Lemma insertN_In x y l : In y (insertN x l) <-> y = x \/ In y l.
Proof.
  induction l as [|z l IH]; simpl.
  - split; intros [H|H]; auto; try contradiction.
  - destruct (x <=? z)%N; simpl.
    + split; intros H; intuition.
    + rewrite IH. split; intros H; intuition.
Qed.

Lemma sortN_In y l : In y (sortN l) <-> In y l.
Proof.
  induction l as [|x l IH]; simpl; [tauto|].
  rewrite insertN_In, IH. split; intros [H|H]; auto.
Qed.

Inductive sortedN : list N -> Prop :=
  | sortedN_nil : sortedN []
  | sortedN_cons x l : (forall y, In y l -> (x <= y)%N) -> sortedN l -> sortedN (x :: l).

Lemma insertN_sorted x l : sortedN l -> sortedN (insertN x l).
Proof.
  induction 1 as [|z l Hz Hs IH]; simpl.
  - constructor; [intros y []|constructor].
  - destruct (x <=? z)%N eqn:E.
    + apply N.leb_le in E. constructor.
      * intros y [->|Hy]; auto. specialize (Hz y Hy). lia.
      * constructor; auto.
    + apply N.leb_gt in E. constructor; auto.
      intros y Hy. apply insertN_In in Hy as [->|Hy]; [lia|auto].
Qed.

Lemma sortN_sorted l : sortedN (sortN l).
Proof. induction l; simpl; [constructor|apply insertN_sorted; auto]. Qed.

Lemma first_below_ge l : forall i, (i <= first_below i l)%N.
Proof.
  induction l as [|x l IH]; intros i; simpl; [lia|].
  destruct (i <? x)%N; [lia|]. specialize (IH (i + 1)%N). lia.
Qed.

Lemma first_below_fresh l : sortedN l -> forall i, ~ In (first_below i l) l.
Proof.
  induction 1 as [|x l Hx Hs IH]; intros i; simpl; [tauto|].
  destruct (i <? x)%N eqn:E.
  - apply N.ltb_lt in E. intros [->|Hin]; [lia|]. specialize (Hx _ Hin). lia.
  - apply N.ltb_ge in E. intros [Heq|Hin].
    + pose proof (first_below_ge l (i + 1)%N). lia.
    + exact (IH _ Hin).
Qed.

Lemma opt_somes_In {A} (a : A) l : In a (opt_somes l) <-> In (Some a) l.
Proof.
  induction l as [|[b|] l IH]; simpl; [tauto| |].
  - rewrite IH. split; intros [H|H]; auto; left; congruence.
  - rewrite IH. split; [auto|]. intros [H|H]; [discriminate|auto].
Qed.

Lemma next_image_idx_fresh names :
  ~ In (Some (next_image_idx names)) (map image_idx_of names).
Proof.
  unfold next_image_idx. intros Hin. apply opt_somes_In in Hin.
  apply sortN_In in Hin. revert Hin. apply first_below_fresh. apply sortN_sorted.
Qed.

(* ================================================================== the new part name *)

Definition ext_ok (e : str) : bool := no_dot e && forallb not_slash e.

Lemma starts_with_app p s : starts_with p (p ++ s) = true.
Proof. induction p as [|x p IH]; simpl; auto. rewrite N.eqb_refl. exact IH. Qed.

Definition s_ppt : str := [112; 112; 116]%N.
Definition s_media : str := [109; 101; 100; 105; 97]%N.
Definition s_image : str := [105; 109; 97; 103; 101]%N.

Lemma image_partname_render n e :
  image_partname n e = render ([s_ppt; s_media] ++ [s_image ++ dec_of_N n ++ [] ++ c_dot :: e]).
Proof. reflexivity. Qed.

Lemma image_idx_of_partname n e : ext_ok e = true -> image_idx_of (image_partname n e) = Some n.
Proof.
  intros He. apply andb_true_iff in He as [He1 He2].
  destruct (dec_of_N_spec n) as [D1 [D2 D3]].
  unfold image_idx_of.
  assert (S1 : starts_with s_img_prefix (image_partname n e) = true)
    by (unfold image_partname; apply starts_with_app).
  rewrite S1, image_partname_render.
  rewrite (idx_some [s_ppt; s_media] s_image (dec_of_N n) [] e); auto.
  - rewrite D3. reflexivity.
  - repeat constructor.
  - discriminate.
  - rewrite app_nil_r. unfold no_dot. rewrite forallb_app. apply andb_true_iff. split; [reflexivity|].
    clear -D2. induction (dec_of_N n) as [|c l IH]; simpl in *; auto.
    apply andb_true_iff in D2 as [Hc Hl]. rewrite IH by auto. rewrite andb_true_r.
    unfold is_digit in Hc. apply andb_true_iff in Hc as [H1 H2]. apply N.leb_le in H1, H2.
    unfold is_dot, c_dot. apply negb_true_iff. apply N.eqb_neq. lia.
Qed.

Lemma next_image_partname_ok names e :
  next_image_partname names e = Ok (image_partname (next_image_idx names) e).
Proof. reflexivity. Qed.

Lemma next_image_partname_fresh names e nm : ext_ok e = true ->
  next_image_partname names e = Ok nm -> ~ In nm names.
Proof.
  intros He Hn Hin. rewrite next_image_partname_ok in Hn. injection Hn as <-. apply (next_image_idx_fresh names).
  rewrite <- (image_idx_of_partname _ e He). apply in_map. exact Hin.
Qed.


Lemma digits_not_slash l : forallb is_digit l = true -> forallb not_slash l = true.
Proof. apply forallb_impl. exact digit_not_slash. Qed.

Lemma ext_image_partname n e : ext_ok e = true -> ext (image_partname n e) = e.
Proof.
  intros He. apply andb_true_iff in He as [He1 He2].
  destruct (dec_of_N_spec n) as [D1 [D2 D3]].
  change (image_partname n e) with (render ([s_ppt; s_media] ++ [(s_image ++ dec_of_N n) ++ c_dot :: e])).
  apply ext_render; auto.
  - repeat constructor.
  - unfold wf_segb.
    assert (Hns : forallb not_slash ((s_image ++ dec_of_N n) ++ c_dot :: e) = true).
    { rewrite !forallb_app. cbn [forallb]. rewrite (digits_not_slash _ D2), He2. reflexivity. }
    rewrite Hns. reflexivity.
Qed.

(* ================================================================== tables used by the store *)

Lemma assoc_In k v l : assoc k l = Some v -> In (k, v) l.
Proof.
  induction l as [|[a b] l IH]; simpl; [discriminate|].
  destruct (str_eqb_spec k a) as [->|Hn]; cbn iota.
  - intros E; inversion E; subst; auto.
  - intros E. right. auto.
Qed.

(** every extension Image.ext can return: the values of the format map and those of the
    header rules *)
Definition all_exts : list str := map snd ext_map ++ map snd ext_special.

Definition ext_row_ok (e : str) : bool :=
  ext_ok e &&
  match assoc e image_content_types with
  | Some ct => ct_is_imagepart ct
  | None => false
  end.

Lemma all_exts_ok : forallb ext_row_ok all_exts = true.
Proof. vm_compute. reflexivity. Qed.

Lemma special_ext_In f b rules e : special_ext f b rules = Some e -> In e (map snd rules).
Proof.
  induction rules as [|[[[g off] magic] e'] r IH]; simpl; [discriminate|].
  destruct (str_eqb f g && str_eqb (slice b off (length magic)) magic).
  - intros Q; inversion Q; auto.
  - intros Q; right; auto.
Qed.

Lemma image_ext_In b m e : image_ext b m = Ok e -> In e all_exts.
Proof.
  destruct m as [|[f|] w h d x]; cbn [image_ext]; try discriminate.
  unfold all_exts. rewrite in_app_iff.
  destruct (special_ext f b ext_special) as [e'|] eqn:S.
  - intros Q; inversion Q; subst e'. right. eapply special_ext_In; eauto.
  - destruct (assoc f ext_map) as [e'|] eqn:E; try discriminate.
    intros Q; inversion Q; subst e'. left. apply assoc_In in E.
    change e with (snd (f, e)). apply in_map. exact E.
Qed.

Lemma image_ext_ok b m e : image_ext b m = Ok e ->
  ext_ok e = true /\ exists ct, ext_content_type e = Ok ct /\ ct_is_imagepart ct = true.
Proof.
  intros E. apply image_ext_In in E.
  pose proof (proj1 (forallb_forall _ _) all_exts_ok _ E) as R.
  unfold ext_row_ok in R. apply andb_true_iff in R as [R1 R2].
  split; [exact R1|]. unfold ext_content_type.
  destruct (assoc e image_content_types) as [ct|]; [|discriminate].
  exists ct. auto.
Qed.

(* ================================================================== the store *)

Lemma nodup_snoc {A} (l : list A) x : NoDup l -> ~ In x l -> NoDup (l ++ [x]).
Proof.
  induction 1 as [|y l Hy Hl IH]; simpl; intros Hx.
  - constructor; [tauto|constructor].
  - constructor.
    + rewrite in_app_iff. simpl. intros [H1|[H1|[]]]; [tauto|]. subst. tauto.
    + apply IH. tauto.
Qed.

Lemma find_snoc {A} (f : A -> bool) l x :
  find f (l ++ [x]) = match find f l with Some y => Some y | None => if f x then Some x else None end.
Proof. induction l as [|y l IH]; simpl; [reflexivity|]. destruct (f y); auto. Qed.

Lemma nodup_map_inj {A B} (f : A -> B) l : NoDup (map f l) ->
  forall a b, In a l -> In b l -> f a = f b -> a = b.
Proof.
  induction l as [|x l IH]; simpl; intros Hn a b Ha Hb E; [contradiction|].
  inversion Hn as [|? ? Hx Hl]; subst.
  destruct Ha as [->|Ha], Hb as [->|Hb]; auto.
  - exfalso. apply Hx. rewrite E. apply in_map. exact Hb.
  - exfalso. apply Hx. rewrite <- E. apply in_map. exact Ha.
Qed.

Lemma nth_set_nth {A} (l : list A) : forall s x y,
  nth_error l s = Some y -> nth_error (set_nth s x l) s = Some x.
Proof.
  induction l as [|z l IH]; intros [|s] x y N; simpl in *; try discriminate; auto.
  eapply IH; eauto.
Qed.

Section StoreProofs.
  Variable H : blob -> str.
  Variable fl : Q -> Q.

  Definition names (ps : list part) : list str := map p_name ps.
  Definition vdigests (ps : list part) : list str := map (digest H) (filter visible ps).
  Definition cls_by_ct (p : part) : Prop := p_cls p = ct_is_imagepart (p_ct p).

  (** the state invariant: part names are unique, no two indexed image parts have the
      same digest, and the class of each part is the one its content type selects *)
  Record InvP (ps : list part) : Prop := mkInvP {
    inv_names : NoDup (names ps);
    inv_digests : NoDup (vdigests ps);
    inv_cls : Forall cls_by_ct ps }.
  Definition Inv (st : state) : Prop := InvP (st_parts st).

  Lemma find_by_digest_some d ps p : find_by_digest H d ps = Some p ->
    In p ps /\ visible p = true /\ digest H p = d.
  Proof.
    unfold find_by_digest. intros E. apply find_some in E as [E1 E2].
    apply andb_true_iff in E2 as [E2 E3]. apply str_eqb_eq in E3. auto.
  Qed.

  Lemma find_by_digest_none d ps : find_by_digest H d ps = None ->
    forall p, In p ps -> visible p = true -> digest H p <> d.
  Proof.
    unfold find_by_digest. intros E p Hp Hv Hd.
    pose proof (find_none _ _ E p Hp) as F. simpl in F.
    rewrite Hv, Hd, str_eqb_refl in F. discriminate.
  Qed.

  Lemma vdigests_In d ps : In d (vdigests ps) <->
    exists p, In p ps /\ visible p = true /\ digest H p = d.
  Proof.
    unfold vdigests. rewrite in_map_iff. split.
    - intros [p [E Hp]]. apply filter_In in Hp as [Hp Hv]. eauto.
    - intros [p [Hp [Hv E]]]. exists p. split; auto. apply filter_In. auto.
  Qed.

  (** with unique digests there is at most one indexed part per digest *)
  Lemma digest_unique ps p q : NoDup (vdigests ps) ->
    In p ps -> In q ps -> visible p = true -> visible q = true ->
    digest H p = digest H q -> p = q.
  Proof.
    intros Hn Hp Hq Vp Vq E.
    apply (nodup_map_inj (digest H) (filter visible ps) Hn); auto; apply filter_In; auto.
  Qed.

  Lemma new_image_part_spec ps im p : new_image_part ps im = Ok p ->
    p_blob p = i_blob im /\ p_meta p = i_meta im /\ visible p = true /\ cls_by_ct p /\
    ~ In (p_name p) (names ps) /\
    exists e, image_ext (i_blob im) (i_meta im) = Ok e /\
              p_name p = image_partname (next_image_idx (names ps)) e /\
              ext (p_name p) = e /\ ext_content_type e = Ok (p_ct p).
  Proof.
    unfold new_image_part. destruct (image_ext (i_blob im) (i_meta im)) as [e|] eqn:E; cbn [bind]; [|discriminate].
    destruct (image_ext_ok _ _ _ E) as [He [ct [Hct Hcls]]].
    fold (names ps). rewrite next_image_partname_ok. cbn [bind]. rewrite Hct. cbn [bind].
    intros Q; injection Q as <-. cbn [p_blob p_meta p_name p_ct p_cls p_rel visible andb].
    repeat split; auto.
    - unfold cls_by_ct. simpl. auto.
    - apply (next_image_partname_fresh (names ps) e); auto.
    - exists e. repeat split; auto. apply ext_image_partname; auto.
  Qed.

  (** the package-level lookup: either the indexed part with that digest, or a new part
      appended under a fresh name holding exactly the bytes given *)
  Lemma get_or_add_spec ps im ps' p : get_or_add H ps im = Ok (ps', p) ->
    (ps' = ps /\ find_by_digest H (H (i_blob im)) ps = Some p) \/
    (ps' = ps ++ [p] /\ find_by_digest H (H (i_blob im)) ps = None /\ new_image_part ps im = Ok p).
  Proof.
    unfold get_or_add. destruct (find_by_digest H (H (i_blob im)) ps) as [q|] eqn:F.
    - intros Q; injection Q as <- <-. left; auto.
    - destruct (new_image_part ps im) as [q|] eqn:N; simpl; [|discriminate].
      intros Q; injection Q as <- <-. right; auto.
  Qed.

  Lemma get_or_add_result ps im ps' p : get_or_add H ps im = Ok (ps', p) ->
    In p ps' /\ visible p = true /\ digest H p = H (i_blob im) /\
    find_by_digest H (H (i_blob im)) ps' = Some p /\ (forall q, In q ps -> In q ps').
  Proof.
    intros G. destruct (get_or_add_spec _ _ _ _ G) as [[-> F]|[-> [F N]]].
    - destruct (find_by_digest_some _ _ _ F) as [A [B C]]. auto.
    - destruct (new_image_part_spec _ _ _ N) as [A [_ [B _]]].
      assert (D : digest H p = H (i_blob im)) by (unfold digest; rewrite A; reflexivity).
      repeat split; auto.
      + apply in_or_app; right; left; reflexivity.
      + unfold find_by_digest in *. rewrite find_snoc, F. rewrite B. unfold digest in D.
        unfold digest. rewrite D, str_eqb_refl. reflexivity.
      + intros q Hq. apply in_or_app; auto.
  Qed.

  Lemma get_or_add_inv ps im ps' p : InvP ps -> get_or_add H ps im = Ok (ps', p) -> InvP ps'.
  Proof.
    intros [I1 I2 I3] G. destruct (get_or_add_spec _ _ _ _ G) as [[-> F]|[-> [F N]]].
    - constructor; auto.
    - destruct (new_image_part_spec _ _ _ N) as [A [_ [B [C [D _]]]]].
      constructor.
      + unfold names. rewrite map_app. apply nodup_snoc; auto.
      + unfold vdigests. rewrite filter_app, map_app. simpl. rewrite B. simpl.
        apply nodup_snoc; auto. intros Hin. apply vdigests_In in Hin as [q [Hq [Vq Eq]]].
        apply (find_by_digest_none _ _ F q Hq Vq). rewrite Eq. unfold digest. rewrite A. reflexivity.
      + apply Forall_app; split; auto.
  Qed.

  (** a digest that is indexed stays indexed, by the same part *)
  Lemma get_or_add_persist ps im ps' p d q : find_by_digest H d ps = Some q ->
    get_or_add H ps im = Ok (ps', p) -> find_by_digest H d ps' = Some q.
  Proof.
    intros F G. destruct (get_or_add_spec _ _ _ _ G) as [[-> _]|[-> _]]; auto.
    unfold find_by_digest in *. rewrite find_snoc, F. reflexivity.
  Qed.

  (** adding the same bytes again adds nothing and gives the same part *)
  Lemma get_or_add_twice ps im im' ps1 p : get_or_add H ps im = Ok (ps1, p) ->
    H (i_blob im') = H (i_blob im) -> get_or_add H ps1 im' = Ok (ps1, p).
  Proof.
    intros G E. destruct (get_or_add_result _ _ _ _ G) as [_ [_ [_ [F _]]]].
    unfold get_or_add. rewrite E, F. reflexivity.
  Qed.

  Lemma reload_part_id p : cls_by_ct p -> reload_part p = p.
  Proof. destruct p; unfold cls_by_ct, reload_part; simpl. intros <-. reflexivity. Qed.

  Lemma reload_parts_id ps : Forall cls_by_ct ps -> map reload_part ps = ps.
  Proof. induction 1 as [|p ps Hp _ IH]; simpl; [reflexivity|]. rewrite reload_part_id, IH; auto. Qed.

  (* ---- relationships ---- *)
  Lemma relate_spec nm rs rs' k : relate nm rs = Ok (rs', k) ->
    In (k, Some nm) rs' /\ (forall r, In r rs -> In r rs').
  Proof.
    unfold relate. destruct (find (rel_targets nm) rs) as [r|] eqn:F.
    - intros Q; injection Q as <- <-. apply find_some in F as [F1 F2].
      unfold rel_targets in F2. destruct r as [k [t|]]; simpl in *; [|discriminate].
      apply str_eqb_eq in F2. subst. auto.
    - destruct (next_rid (map fst rs)) as [k'|]; [|discriminate].
      intros Q; injection Q as <- <-. split.
      + apply in_or_app; right; left; reflexivity.
      + intros r Hr. apply in_or_app; auto.
  Qed.

  (* ---- one step ---- *)
  Lemma step_parts st o st' r : step H fl st o = (st', r) ->
    st_parts st' = st_parts st \/
    (exists im p, get_or_add H (st_parts st) im = Ok (st_parts st', p)) \/
    st_parts st' = map reload_part (st_parts st).
  Proof.
    destruct o as [|s k|s im u|]; simpl.
    - intros Q; injection Q as <- <-. auto.
    - destruct (nth_error (st_slides st) s); [|intros Q; injection Q as <- <-; auto].
      destruct (occupy k l); intros Q; injection Q as <- <-; auto.
    - destruct (nth_error (st_slides st) s) as [rs|]; [|intros Q; injection Q as <- <-; auto].
      destruct (get_or_add H (st_parts st) im) as [[ps' p]|] eqn:G; [|intros Q; injection Q as <- <-; auto].
      destruct (relate (p_name p) rs) as [[rs' rid]|]; intros Q; injection Q as <- <-; auto.
      right; left. exists im, p. exact G.
    - intros Q; injection Q as <- <-. auto.
  Qed.

  Lemma step_inv st o st' r : Inv st -> step H fl st o = (st', r) -> Inv st'.
  Proof.
    unfold Inv. intros I S. destruct (step_parts _ _ _ _ S) as [E|[[im [p G]]|E]].
    - rewrite E; auto.
    - eapply get_or_add_inv; eauto.
    - rewrite E, reload_parts_id; auto. apply inv_cls; auto.
  Qed.

  Lemma step_persist st o st' r d q : Inv st -> step H fl st o = (st', r) ->
    find_by_digest H d (st_parts st) = Some q -> find_by_digest H d (st_parts st') = Some q.
  Proof.
    intros I S F. destruct (step_parts _ _ _ _ S) as [E|[[im [p G]]|E]].
    - rewrite E; auto.
    - eapply get_or_add_persist; eauto.
    - rewrite E, reload_parts_id; auto. apply inv_cls; auto.
  Qed.

  Lemma step_keeps st o st' r q : Inv st -> step H fl st o = (st', r) ->
    In q (st_parts st) -> In q (st_parts st').
  Proof.
    intros I S F. destruct (step_parts _ _ _ _ S) as [E|[[im [p G]]|E]].
    - rewrite E; auto.
    - destruct (get_or_add_result _ _ _ _ G) as [_ [_ [_ [_ K]]]]. auto.
    - rewrite E, reload_parts_id; auto. apply inv_cls; auto.
  Qed.

  (** what a successful image step reports *)
  Lemma step_image st s im u st' name rid e ct a b :
    step H fl st (OImage s im u) = (st', Ok (OutImg name rid e ct a b)) ->
    exists p rs rs', get_or_add H (st_parts st) im = Ok (st_parts st', p) /\
      name = p_name p /\ ct = p_ct p /\ e = ext name /\
      nth_error (st_slides st) s = Some rs /\ relate name rs = Ok (rs', rid) /\
      st_slides st' = set_nth s rs' (st_slides st) /\
      apply_use fl p u = Ok (a, b).
  Proof.
    simpl. destruct (nth_error (st_slides st) s) as [rs|]; [|intros Q; discriminate].
    destruct (get_or_add H (st_parts st) im) as [[ps' p]|] eqn:G; [|intros Q; discriminate].
    destruct (relate (p_name p) rs) as [[rs' k]|] eqn:R; [|intros Q; discriminate].
    destruct (apply_use fl p u) as [[a' b']|] eqn:U; simpl; intros Q; [|discriminate].
    injection Q as <- <- <- <- <- <- <-. exists p, rs, rs'. simpl. repeat split; auto.
  Qed.

  (* ---- histories ---- *)
  Lemma run_cons st o r :
    run H fl st (o :: r) =
    (fst (run H fl (fst (step H fl st o)) r), snd (step H fl st o) :: snd (run H fl (fst (step H fl st o)) r)).
  Proof. simpl. destruct (step H fl st o) as [st1 x]. simpl. destruct (run H fl st1 r). reflexivity. Qed.

  Lemma final_cons st o r : final H fl st (o :: r) = final H fl (fst (step H fl st o)) r.
  Proof. unfold final. rewrite run_cons. reflexivity. Qed.

  Lemma run_inv ops : forall st, Inv st -> Inv (final H fl st ops).
  Proof.
    induction ops as [|o r IH]; intros st I; [exact I|].
    rewrite final_cons. apply IH. destruct (step H fl st o) as [st1 x] eqn:S. eapply step_inv; eauto.
  Qed.

  Lemma run_persist ops : forall st d q, Inv st ->
    find_by_digest H d (st_parts st) = Some q ->
    find_by_digest H d (st_parts (final H fl st ops)) = Some q.
  Proof.
    induction ops as [|o r IH]; intros st d q I F; [exact F|].
    rewrite final_cons. destruct (step H fl st o) as [st1 x] eqn:S. simpl.
    apply IH; [eapply step_inv; eauto | eapply step_persist; eauto].
  Qed.

  Lemma run_keeps ops : forall st q, Inv st -> In q (st_parts st) ->
    In q (st_parts (final H fl st ops)).
  Proof.
    induction ops as [|o r IH]; intros st q I F; [exact F|].
    rewrite final_cons. destruct (step H fl st o) as [st1 x] eqn:S. simpl.
    apply IH; [eapply step_inv; eauto | eapply step_keeps; eauto].
  Qed.

  (** the i-th operation stored an image and reported (name, ext, ct): at the end of the
      whole history the index maps the digest of those bytes to a part of that name *)
  Lemma run_stored ops : forall st i s im u name rid e ct a b, Inv st ->
    nth_error ops i = Some (OImage s im u) ->
    nth_error (snd (run H fl st ops)) i = Some (Ok (OutImg name rid e ct a b)) ->
    exists p, find_by_digest H (H (i_blob im)) (st_parts (final H fl st ops)) = Some p /\
              p_name p = name /\ p_ct p = ct /\ e = ext name.
  Proof.
    induction ops as [|o r IH]; intros st i s im u name rid e ct a b I N1 N2.
    - destruct i; discriminate.
    - rewrite run_cons in N2. rewrite final_cons.
      destruct (step H fl st o) as [st1 x] eqn:S. simpl in *.
      assert (I1 : Inv st1) by (eapply step_inv; eauto).
      destruct i as [|i]; simpl in *.
      + injection N1 as ->. injection N2 as ->.
        destruct (step_image _ _ _ _ _ _ _ _ _ _ _ S) as [p [rs [rs' [G [E1 [E2 [E3 _]]]]]]].
        destruct (get_or_add_result _ _ _ _ G) as [_ [_ [_ [F _]]]].
        exists p. split; [apply run_persist; auto|]. auto.
      + eapply IH; eauto.
  Qed.
End StoreProofs.

(* ================================================================== statements of props/C15.v: the store *)
Section StoreTheorems.
  Variable H : blob -> str.
  Variable fl : Q -> Q.

  (** the i-th operation of the history is an image addition that succeeded *)
  Definition stored_at (st : state) (ops : list op) (i : nat) (im : image) (name e ct : str) : Prop :=
    exists s u rid a b,
      nth_error ops i = Some (OImage s im u) /\
      nth_error (snd (run H fl st ops)) i = Some (Ok (OutImg name rid e ct a b)).

  Lemma once st ops i im name e ct : Inv H st -> stored_at st ops i im name e ct ->
    let ps := st_parts (final H fl st ops) in
    exists p, In p ps /\ visible p = true /\ p_name p = name /\ p_ct p = ct /\ ext (p_name p) = e /\
              digest H p = H (i_blob im) /\
              forall q, In q ps -> visible q = true -> digest H q = H (i_blob im) -> q = p.
  Proof.
    intros I [s [u [rid [a [b [N1 N2]]]]]] ps.
    destruct (run_stored H fl ops st i s im u name rid e ct a b I N1 N2) as [p [F [E1 [E2 E3]]]].
    destruct (find_by_digest_some H _ _ _ F) as [A [B C]].
    exists p. subst. repeat split; auto.
    intros q Hq Vq Dq. symmetry.
    apply (digest_unique H ps); auto.
    - apply (inv_digests H). apply (run_inv H fl ops st I).
    - congruence.
  Qed.

  Lemma same_part st ops i j im im' name e ct name' e' ct' : Inv H st ->
    stored_at st ops i im name e ct -> stored_at st ops j im' name' e' ct' ->
    H (i_blob im) = H (i_blob im') -> name = name' /\ e = e' /\ ct = ct'.
  Proof.
    intros I S1 S2 E.
    destruct (once _ _ _ _ _ _ _ I S1) as [p [P1 [P2 [P3 [P4 [P5 [P6 P7]]]]]]].
    destruct (once _ _ _ _ _ _ _ I S2) as [q [Q1 [Q2 [Q3 [Q4 [Q5 [Q6 Q7]]]]]]].
    assert (q = p) by (apply P7; auto; congruence). subst q.
    repeat split; congruence.
  Qed.

  Lemma distinct st ops i j im im' name e ct name' e' ct' : Inv H st ->
    stored_at st ops i im name e ct -> stored_at st ops j im' name' e' ct' ->
    H (i_blob im) <> H (i_blob im') -> name <> name'.
  Proof.
    intros I S1 S2 E Hn.
    destruct (once _ _ _ _ _ _ _ I S1) as [p [P1 [P2 [P3 [P4 [P5 [P6 P7]]]]]]].
    destruct (once _ _ _ _ _ _ _ I S2) as [q [Q1 [Q2 [Q3 [Q4 [Q5 [Q6 Q7]]]]]]].
    assert (p = q).
    { apply (nodup_map_inj p_name (st_parts (final H fl st ops))); auto; [|congruence].
      apply (inv_names H). apply (run_inv H fl ops st I). }
    subst q. congruence.
  Qed.

  Lemma bytes st ops i im name e ct : Inv H st -> stored_at st ops i im name e ct ->
    (forall b, H b = H (i_blob im) -> b = i_blob im) ->
    exists p, In p (st_parts (final H fl st ops)) /\ p_name p = name /\ p_blob p = i_blob im.
  Proof.
    intros I S Hsep.
    destruct (once _ _ _ _ _ _ _ I S) as [p [P1 [P2 [P3 [P4 [P5 [P6 P7]]]]]]].
    exists p. repeat split; auto.
  Qed.

  (** nothing already in the store is changed or dropped by any history *)
  Lemma preserved st ops q : Inv H st -> In q (st_parts st) -> In q (st_parts (final H fl st ops)).
  Proof. intros I Hq. apply run_keeps; auto. Qed.

  (** save and re-open: under the invariant the reloaded store is the store, so the
      digest index rebuilt from the loaded parts answers every query as before *)
  Lemma reopen st : Inv H st ->
    step H fl st OReload = (st, Ok OutUnit) /\
    forall d, find_by_digest H d (map reload_part (st_parts st)) = find_by_digest H d (st_parts st).
  Proof.
    intros I. assert (E : map reload_part (st_parts st) = st_parts st)
      by (apply reload_parts_id; apply (inv_cls H); exact I).
    split.
    - simpl. rewrite E. destruct st; reflexivity.
    - intros d. rewrite E. reflexivity.
  Qed.

  (** a part created by get_or_add survives re-opening as an indexed image part even
      without the invariant on the rest of the store *)
  Lemma reopen_new ps im p : new_image_part ps im = Ok p -> reload_part p = p.
  Proof.
    intros N. destruct (new_image_part_spec ps im p N) as [_ [_ [_ [C _]]]].
    apply reload_part_id. exact C.
  Qed.

  Lemma new_part_type ps im ps' p : get_or_add H ps im = Ok (ps', p) ->
    find_by_digest H (H (i_blob im)) ps = None ->
    p_blob p = i_blob im /\ ~ In (p_name p) (map p_name ps) /\
    exists e, image_ext (i_blob im) (i_meta im) = Ok e /\ ext (p_name p) = e /\
              assoc e image_content_types = Some (p_ct p).
  Proof.
    intros G F. destruct (get_or_add_spec H _ _ _ _ G) as [[_ F']|[_ [_ N]]]; [congruence|].
    destruct (new_image_part_spec ps im p N) as [A [_ [_ [_ [D [e [E1 [E2 [E3 E4]]]]]]]]].
    repeat split; auto. exists e. repeat split; auto.
    unfold ext_content_type in E4. destruct (assoc e image_content_types); [|discriminate].
    injection E4 as ->. reflexivity.
  Qed.

  (** the relationship used by the picture targets the stored part *)
  Lemma rel_targets_part st s im u st' name rid e ct a b :
    step H fl st (OImage s im u) = (st', Ok (OutImg name rid e ct a b)) ->
    exists rs', nth_error (st_slides st') s = Some rs' /\ In (rid, Some name) rs'.
  Proof.
    intros S. destruct (step_image H fl _ _ _ _ _ _ _ _ _ _ _ S) as [p [rs [rs' [_ [_ [_ [_ [N [R [E _]]]]]]]]]].
    exists rs'. rewrite E. split.
    - apply (nth_set_nth _ _ _ _ N).
    - exact (proj1 (relate_spec _ _ _ _ R)).
  Qed.
End StoreTheorems.

(* ================================================================== numbers *)
Section Numbers.
Local Open Scope Q_scope.

Lemma rhe_near q : Qabs (inject_Z (rhe q) - q) <= 1 # 2.
Proof.
  unfold rhe. set (f := Qfloor q).
  assert (L : inject_Z f <= q) by apply Qfloor_le.
  assert (U : q < inject_Z (f + 1)) by apply Qlt_floor.
  rewrite inject_Z_plus in U. change (inject_Z 1) with 1 in U.
  destruct (Qcompare_spec (q - inject_Z f) (1 # 2)) as [E|E|E].
  - destruct (Z.even f).
    + apply Qabs_Qle_condition. split; lra.
    + rewrite inject_Z_plus. change (inject_Z 1) with 1. apply Qabs_Qle_condition; split; lra.
  - apply Qabs_Qle_condition; split; lra.
  - rewrite inject_Z_plus. change (inject_Z 1) with 1. apply Qabs_Qle_condition; split; lra.
Qed.

Lemma rhe_proper p q : p == q -> rhe p = rhe q.
Proof.
  intros E. unfold rhe.
  assert (F : Qfloor p = Qfloor q) by (apply Qfloor_comp; exact E).
  rewrite F. set (f := Qfloor q).
  destruct (Qcompare_spec (p - inject_Z f) (1 # 2)); destruct (Qcompare_spec (q - inject_Z f) (1 # 2));
    try reflexivity; exfalso; lra.
Qed.

Lemma rhe_int z : rhe (inject_Z z) = z.
Proof.
  unfold rhe. rewrite Qfloor_Z.
  destruct (Qcompare_spec (inject_Z z - inject_Z z) (1 # 2)); try reflexivity; exfalso; lra.
Qed.

Lemma mul_mono (a b c : Q) : 0 <= c -> a <= b -> a * c <= b * c.
Proof. intros. nra. Qed.

Lemma bound_core (Ab Ac Ar D1 Af1 D2 D3 T eps : Q) :
  0 <= Ab -> 0 <= Ac -> 0 <= Ar -> 0 <= D1 -> 0 <= D2 -> 0 <= D3 -> 0 <= eps -> eps <= 1 ->
  D1 <= Ar * eps -> Af1 <= Ar + D1 -> 0 <= Af1 -> D2 <= Ab * Af1 * eps -> D3 <= 1#2 ->
  T <= Ab * D1 * Ac + D2 * Ac + D3 * Ac ->
  T <= Ac * (1#2) + (Ar * Ac * Ab) * (3 * eps).
Proof.
  intros.
  assert (P1 : 0 <= Ab * Ac) by nra.
  assert (E1 : D1 * (Ab * Ac) <= (Ar * eps) * (Ab * Ac)) by (apply mul_mono; auto).
  assert (E2 : Af1 <= 2 * Ar) by nra.
  assert (P2 : 0 <= Ab * eps) by nra.
  assert (E3 : Af1 * (Ab * eps) <= (2 * Ar) * (Ab * eps)) by (apply mul_mono; auto).
  assert (E3' : D2 <= (2 * Ar) * (Ab * eps)) by nra.
  assert (E4 : D2 * Ac <= (2 * Ar) * (Ab * eps) * Ac) by (apply mul_mono; auto).
  assert (E5 : D3 * Ac <= (1#2) * Ac) by (apply mul_mono; auto).
  nra.
Qed.

(** 2^-53, the unit roundoff of binary64 *)
Definition eps53 : Q := 1 # 9007199254740992.

Definition small (z : Z) : Prop := (Z.abs z <= 9007199254740992)%Z.

Section ScaleProofs.
  Variable fl : Q -> Q.
  Hypothesis fl_proper : forall p q, p == q -> fl p == fl q.
  Hypothesis fl_err : forall q, Qabs (fl q - q) <= Qabs q * eps53.
  Hypothesis fl_int : forall z, small z -> fl (inject_Z z) == inject_Z z.

  (** the computed dimension times the native one differs from the exact cross product by
      at most half a native unit plus three roundings *)
  Lemma scaled_bound a c b : small a -> small c -> small b -> c <> 0%Z ->
    Qabs (inject_Z (scaled fl a c b) * inject_Z c - inject_Z a * inject_Z b)
    <= Qabs (inject_Z c) * (1 # 2) + Qabs (inject_Z a * inject_Z b) * (3 * eps53).
  Proof.
    intros Ha Hc Hb Hc0.
    set (A := inject_Z a). set (C := inject_Z c). set (B := inject_Z b).
    assert (C0 : ~ C == 0).
    { unfold C, Qeq. simpl. lia. }
    assert (E1 : fl A / fl C == A / C).
    { unfold A, C. rewrite (fl_int a Ha), (fl_int c Hc). reflexivity. }
    assert (E2 : fl (fl A / fl C) == fl (A / C)) by (apply fl_proper; exact E1).
    assert (E3 : fl B * fl (fl A / fl C) == B * fl (A / C)).
    { rewrite E2. unfold B. rewrite (fl_int b Hb). reflexivity. }
    assert (E4 : fl (fl B * fl (fl A / fl C)) == fl (B * fl (A / C))) by (apply fl_proper; exact E3).
    unfold scaled. fold A B C. rewrite (rhe_proper _ _ E4).
    set (r := A / C). set (f1 := fl r). set (X := fl (B * f1)). set (cy := inject_Z (rhe X)).
    assert (RC : r * C == A) by (unfold r; field; exact C0).
    pose proof (fl_err r) as F1. fold f1 in F1.
    pose proof (fl_err (B * f1)) as F2. fold X in F2. rewrite Qabs_Qmult in F2.
    pose proof (rhe_near X) as F3. fold cy in F3.
    assert (T1 : Qabs f1 <= Qabs r + Qabs (f1 - r)).
    { assert (Ef : f1 == r + (f1 - r)) by ring. rewrite Ef at 1. apply Qabs_triangle. }
    assert (Dec : cy * C - A * B == B * (f1 - r) * C + ((X - B * f1) * C + (cy - X) * C)).
    { rewrite <- RC. ring. }
    assert (T2 : Qabs (cy * C - A * B)
                 <= Qabs B * Qabs (f1 - r) * Qabs C + Qabs (X - B * f1) * Qabs C + Qabs (cy - X) * Qabs C).
    { rewrite Dec.
      eapply Qle_trans; [apply Qabs_triangle|].
      rewrite !Qabs_Qmult.
      assert (T3 : Qabs ((X - B * f1) * C + (cy - X) * C)
                   <= Qabs (X - B * f1) * Qabs C + Qabs (cy - X) * Qabs C).
      { eapply Qle_trans; [apply Qabs_triangle|]. rewrite !Qabs_Qmult. apply Qle_refl. }
      lra. }
    assert (AB : Qabs (A * B) == Qabs r * Qabs C * Qabs B).
    { rewrite <- RC. rewrite !Qabs_Qmult. reflexivity. }
    rewrite AB.
    apply (bound_core (Qabs B) (Qabs C) (Qabs r) (Qabs (f1 - r)) (Qabs f1) (Qabs (X - B * f1))
                      (Qabs (cy - X)) _ eps53); auto using Qabs_nonneg.
    - unfold eps53. lra.
    - unfold eps53. lra.
  Qed.

  Lemma scale_none icx icy : scale fl icx icy None None = Ok (icx, icy).
  Proof. reflexivity. Qed.

  Lemma scale_falsy icx icy cx cy : truthy cx = false -> truthy cy = false ->
    scale fl icx icy cx cy = Ok (icx, icy).
  Proof. unfold scale. intros -> ->. reflexivity. Qed.

  Lemma scale_both icx icy x y : x <> 0%Z -> y <> 0%Z ->
    scale fl icx icy (Some x) (Some y) = Ok (x, y).
  Proof.
    intros Hx Hy. unfold scale, truthy.
    destruct (Z.eqb_spec x 0); [contradiction|]. destruct (Z.eqb_spec y 0); [contradiction|]. reflexivity.
  Qed.

  (** a zero argument is treated exactly as an absent one *)
  Lemma scale_zero_is_none icx icy o :
    scale fl icx icy (Some 0%Z) o = scale fl icx icy None o /\
    scale fl icx icy o (Some 0%Z) = scale fl icx icy o None.
  Proof. unfold scale. simpl. destruct (truthy o); auto. Qed.

  Lemma scale_width_given icx icy x cy : x <> 0%Z -> truthy cy = false -> icx <> 0%Z ->
    small x -> small icx -> small icy ->
    exists y, scale fl icx icy (Some x) cy = Ok (x, y) /\
      Qabs (inject_Z y * inject_Z icx - inject_Z x * inject_Z icy)
      <= Qabs (inject_Z icx) * (1 # 2) + Qabs (inject_Z x * inject_Z icy) * (3 * eps53).
  Proof.
    intros Hx Hcy Hi Sx Si Sy. unfold scale. rewrite Hcy. unfold truthy.
    destruct (Z.eqb_spec x 0); [contradiction|]. simpl.
    destruct (Z.eqb_spec icx 0); [contradiction|].
    eexists; split; [reflexivity|]. apply scaled_bound; auto.
  Qed.

  Lemma scale_height_given icx icy cx y : y <> 0%Z -> truthy cx = false -> icy <> 0%Z ->
    small y -> small icx -> small icy ->
    exists x, scale fl icx icy cx (Some y) = Ok (x, y) /\
      Qabs (inject_Z x * inject_Z icy - inject_Z y * inject_Z icx)
      <= Qabs (inject_Z icy) * (1 # 2) + Qabs (inject_Z y * inject_Z icx) * (3 * eps53).
  Proof.
    intros Hy Hcx Hi Sy Si Sj. unfold scale. rewrite Hcx. unfold truthy.
    destruct (Z.eqb_spec y 0); [contradiction|]. simpl.
    destruct (Z.eqb_spec icy 0); [contradiction|].
    eexists; split; [reflexivity|]. apply scaled_bound; auto.
  Qed.

  Lemma scale_zero_native x cy : x <> 0%Z -> truthy cy = false -> forall icy,
    scale fl 0 icy (Some x) cy = Err OtherErr.
  Proof.
    intros Hx Hcy icy. unfold scale. rewrite Hcy. unfold truthy.
    destruct (Z.eqb_spec x 0); [contradiction|]. reflexivity.
  Qed.
End ScaleProofs.

(** the hypotheses on fl are satisfiable (exact arithmetic meets them) *)
Lemma fl_hyps_consistent :
  (forall p q, p == q -> (fun x => x) p == (fun x => x) q) /\
  (forall q, Qabs ((fun x => x) q - q) <= Qabs q * eps53) /\
  (forall z, small z -> (fun x : Q => x) (inject_Z z) == inject_Z z).
Proof.
  split; [auto|]. split; [|intros; reflexivity].
  intros q. assert (E : q - q == 0) by ring. rewrite E. simpl.
  assert (0 <= Qabs q) by apply Qabs_nonneg. unfold eps53. nra.
Qed.
End Numbers.

(* ================================================================== dpi, native size *)

Lemma int_dpi_range d n : int_dpi d = Ok n -> 1 <= n <= 2048.
Proof.
  destruct d as [q| | |]; simpl; try discriminate; try (intros Q; injection Q as <-; lia).
  destruct (Z.ltb_spec (rhe q) 1); destruct (Z.ltb_spec 2048 (rhe q)); simpl;
    intros Q; injection Q as <-; lia.
Qed.

Lemma int_dpi_total d : d <> DInf -> exists n, int_dpi d = Ok n.
Proof. destruct d; simpl; eauto. congruence. Qed.

Lemma int_dpi_value q : 1 <= rhe q <= 2048 ->
  int_dpi (DQ q) = Ok (rhe q) /\ (Qabs (inject_Z (rhe q) - q) <= 1 # 2)%Q.
Proof.
  intros Hr. split; [|apply rhe_near]. simpl.
  destruct (Z.ltb_spec (rhe q) 1); [lia|]. destruct (Z.ltb_spec 2048 (rhe q)); [lia|]. reflexivity.
Qed.

Lemma int_dpi_default q : (rhe q < 1 \/ 2048 < rhe q) -> int_dpi (DQ q) = Ok 72.
Proof.
  intros Hr. simpl.
  destruct (Z.ltb_spec (rhe q) 1); [reflexivity|]. destruct (Z.ltb_spec 2048 (rhe q)); [reflexivity|]. lia.
Qed.

Lemma normalize_range d a b : normalize_pil_dpi d = Ok (a, b) -> 1 <= a <= 2048 /\ 1 <= b <= 2048.
Proof.
  destruct d as [|x y]; simpl.
  - intros Q; injection Q as <- <-. lia.
  - destruct (int_dpi x) as [a'|] eqn:E1; simpl; [|discriminate].
    destruct (int_dpi y) as [b'|] eqn:E2; simpl; [|discriminate].
    intros Q; injection Q as <- <-. split; eapply int_dpi_range; eauto.
Qed.

Lemma native_dim_spec px dpi : 0 <= px -> 1 <= dpi ->
  native_dim px dpi * dpi <= 914400 * px < (native_dim px dpi + 1) * dpi.
Proof.
  intros Hp Hd. unfold native_dim. rewrite Z.quot_div_nonneg by lia.
  pose proof (Z.div_mod (914400 * px) dpi ltac:(lia)) as DM.
  pose proof (Z.mod_pos_bound (914400 * px) dpi ltac:(lia)) as MB.
  set (qq := (914400 * px) / dpi) in *. set (mm := (914400 * px) mod dpi) in *. nia.
Qed.

Lemma native_size_spec f w h d x : 0 <= w -> 0 <= h ->
  forall cx cy, native_size (Meta f w h d x) = Ok (cx, cy) ->
  exists hd vd, normalize_pil_dpi (eff_dpi f d x) = Ok (hd, vd) /\ 1 <= hd <= 2048 /\ 1 <= vd <= 2048 /\
    cx * hd <= 914400 * w < (cx + 1) * hd /\ cy * vd <= 914400 * h < (cy + 1) * vd.
Proof.
  intros Hw Hh cx cy. unfold native_size. cbn [meta_dpi meta_px].
  destruct (normalize_pil_dpi (eff_dpi f d x)) as [[hd vd]|] eqn:E; cbn [bind fst snd]; [|discriminate].
  intros Q; injection Q as <- <-.
  destruct (normalize_range _ _ _ E) as [R1 R2].
  exists hd, vd. repeat split; auto; try lia; apply native_dim_spec; lia.
Qed.

Lemma native_size_nodpi f w h d x : eff_dpi f d x = PNoTuple ->
  native_size (Meta f w h d x) = Ok (12700 * w, 12700 * h).
Proof.
  intros E. unfold native_size, native_dim. cbn [meta_dpi meta_px]. rewrite E.
  cbn [normalize_pil_dpi bind fst snd].
  replace (914400 * w) with (12700 * w * 72) by lia.
  replace (914400 * h) with (12700 * h * 72) by lia.
  rewrite !Z.quot_mul by lia. reflexivity.
Qed.

(** no dpi entry: 72 dpi, that is 12700 EMU per pixel *)
Lemma native_size_default f w h x : native_size (Meta f w h PNoTuple x) = Ok (12700 * w, 12700 * h).
Proof. apply native_size_nodpi. unfold eff_dpi. destruct (existsb _ _); reflexivity. Qed.

(** a TIFF for which Pillow read no XResolution tag: whatever dpi entry Pillow made up is
    dropped, so the image is sized at 72 dpi *)
Lemma native_size_tiff_nores w h d :
  native_size (Meta (Some [84; 73; 70; 70]%N) w h d false) = Ok (12700 * w, 12700 * h).
Proof. apply native_size_nodpi. reflexivity. Qed.

(** in every other case the dpi entry Pillow reports is the one used *)
Lemma eff_dpi_kept f d x : x = true \/ fmt_is f [84; 73; 70; 70]%N = false -> eff_dpi f d x = d.
Proof.
  intros [->|E]; unfold eff_dpi, dpi_drop_rules; cbn [existsb fst snd].
  - rewrite andb_false_r. reflexivity.
  - rewrite E. reflexivity.
Qed.

(* ================================================================== table obligations (generic part) *)

Definition pair_mem (k v : str) (l : list (str * str)) : bool :=
  existsb (fun r => str_eqb (fst r) k && str_eqb (snd r) v) l.
Definition key_functional (k v : str) (l : list (str * str)) : bool :=
  forallb (fun r => negb (str_eqb (fst r) k) || str_eqb (snd r) v) l.

(** every extension in the list has a content type, that pair is a Default row of the
    content-types writer and the only row for that extension, and the content type is one
    the part factory maps to ImagePart *)
Definition tables_ok (exts : list str) (ict dct : list (str * str)) (ipc : list str) : bool :=
  forallb (fun e =>
    match assoc e ict with
    | Some ct => pair_mem e ct dct && key_functional e ct dct && mem_str ct ipc
    | None => false
    end) exts.

Lemma tables_ok_sound exts ict dct ipc : tables_ok exts ict dct ipc = true ->
  forall e, In e exts ->
  exists ct, assoc e ict = Some ct /\ In (e, ct) dct /\
             (forall ct', In (e, ct') dct -> ct' = ct) /\ In ct ipc.
Proof.
  intros T e A.
  pose proof (proj1 (forallb_forall _ _) T _ A) as R. cbn beta in R.
  destruct (assoc e ict) as [ct|]; [|discriminate].
  apply andb_true_iff in R as [R R3]. apply andb_true_iff in R as [R1 R2].
  exists ct. split; [reflexivity|]. split; [|split].
  - unfold pair_mem in R1. apply existsb_exists in R1 as [[k v] [Hin Hkv]]. cbn [fst snd] in Hkv.
    apply andb_true_iff in Hkv as [K V]. apply str_eqb_eq in K, V. subst. exact Hin.
  - intros ct' Hin. unfold key_functional in R2.
    pose proof (proj1 (forallb_forall _ _) R2 _ Hin) as F. cbn [fst snd] in F.
    rewrite str_eqb_refl in F. simpl in F. apply str_eqb_eq in F. exact F.
  - apply mem_str_In. exact R3.
Qed.

Definition opt_str_eqb (a b : option str) : bool :=
  match a, b with
  | Some x, Some y => str_eqb x y
  | None, None => true
  | _, _ => false
  end.

Lemma opt_str_eqb_eq a b : opt_str_eqb a b = true -> a = b.
Proof.
  destruct a, b; simpl; try discriminate; auto. intros E. apply str_eqb_eq in E. congruence.
Qed.

(** the two association lists define the same lookup function (order-insensitive) *)
Definition assoc_equiv (a b : list (str * str)) : bool :=
  forallb (fun kv => opt_str_eqb (assoc (fst kv) a) (assoc (fst kv) b)) (a ++ b).

Lemma assoc_equiv_sound a b : assoc_equiv a b = true -> forall k, assoc k a = assoc k b.
Proof.
  intros E k. unfold assoc_equiv in E. rewrite forallb_forall in E.
  destruct (assoc k a) as [v|] eqn:A.
  - pose proof (E (k, v) (in_or_app _ _ _ (or_introl (assoc_In _ _ _ A)))) as F.
    cbn [fst] in F. rewrite A in F. apply opt_str_eqb_eq in F. auto.
  - destruct (assoc k b) as [v|] eqn:B; [|reflexivity].
    pose proof (E (k, v) (in_or_app _ _ _ (or_intror (assoc_In _ _ _ B)))) as F.
    cbn [fst] in F. rewrite A, B in F. discriminate.
Qed.

Definition set_equiv (a b : list str) : bool :=
  forallb (fun x => mem_str x b) a && forallb (fun x => mem_str x a) b.

Lemma set_equiv_sound a b : set_equiv a b = true -> forall x, mem_str x a = mem_str x b.
Proof.
  intros E x. apply andb_true_iff in E as [E1 E2]. rewrite forallb_forall in E1, E2.
  destruct (mem_str x a) eqn:A.
  - apply mem_str_In in A. symmetry. apply E1. exact A.
  - destruct (mem_str x b) eqn:B; [|reflexivity].
    apply mem_str_In in B. rewrite (E2 _ B) in A. discriminate.
Qed.

(** the regenerated tables are the ones the model computes with *)
Definition tables_match (em ict : list (str * str)) (ipc : list str) : bool :=
  assoc_equiv em ext_map && assoc_equiv ict image_content_types && set_equiv ipc imagepart_cts.

Lemma tables_match_sound em ict ipc : tables_match em ict ipc = true ->
  (forall k, assoc k em = assoc k ext_map) /\
  (forall k, assoc k ict = assoc k image_content_types) /\
  (forall ct, mem_str ct ipc = ct_is_imagepart ct).
Proof.
  intros T. apply andb_true_iff in T as [T T3]. apply andb_true_iff in T as [T1 T2].
  split; [apply assoc_equiv_sound; auto|]. split; [apply assoc_equiv_sound; auto|].
  intros ct. unfold ct_is_imagepart. apply set_equiv_sound. exact T3.
Qed.

(* ================================================================== packaging for props/C15.v *)

Lemma inv_meaning H st :
  Inv H st <->
  NoDup (map p_name (st_parts st)) /\
  NoDup (map (digest H) (filter visible (st_parts st))) /\
  Forall (fun p => p_cls p = ct_is_imagepart (p_ct p)) (st_parts st).
Proof.
  split.
  - intros [A B C]. auto.
  - intros [A [B C]]. constructor; auto.
Qed.

Lemma inv_empty H : Inv H empty_state.
Proof. constructor; simpl; constructor. Qed.

Lemma scale_one_given : forall fl : Q -> Q,
  (forall p q, (p == q)%Q -> (fl p == fl q)%Q) ->
  (forall q, (Qabs (fl q - q) <= Qabs q * eps53)%Q) ->
  (forall z, small z -> (fl (inject_Z z) == inject_Z z)%Q) ->
  forall icx icy, small icx -> small icy ->
  (forall x cy, x <> 0 -> truthy cy = false -> icx <> 0 -> small x ->
     exists y, scale fl icx icy (Some x) cy = Ok (x, y) /\
       (Qabs (inject_Z y * inject_Z icx - inject_Z x * inject_Z icy)
        <= Qabs (inject_Z icx) * (1 # 2) + Qabs (inject_Z x * inject_Z icy) * (3 * eps53))%Q) /\
  (forall y cx, y <> 0 -> truthy cx = false -> icy <> 0 -> small y ->
     exists x, scale fl icx icy cx (Some y) = Ok (x, y) /\
       (Qabs (inject_Z x * inject_Z icy - inject_Z y * inject_Z icx)
        <= Qabs (inject_Z icy) * (1 # 2) + Qabs (inject_Z y * inject_Z icx) * (3 * eps53))%Q).
Proof.
  intros fl P E I icx icy Sx Sy. split.
  - intros x cy Hx Hcy Hi Sx'. apply (scale_width_given fl P E I); auto.
  - intros y cx Hy Hcx Hi Sy'. apply (scale_height_given fl P E I); auto.
Qed.

(* ================================================================== fl64 meets the premises of the scale bound *)
Section Fl64.
Local Open Scope Q_scope.

Lemma pow2Q_power e : pow2Q e == 2 ^ e.
Proof.
  unfold pow2Q. destruct (Z.leb_spec 0 e) as [He|He].
  - rewrite Zpower_Qpower by lia. reflexivity.
  - assert (E : (e = - (- e))%Z) by lia. rewrite E at 2. rewrite Qpower_opp.
    rewrite <- (Zpower_Qpower 2 (- e)) by lia.
    assert (P : (0 < 2 ^ (- e))%Z) by (apply Z.pow_pos_nonneg; lia).
    destruct (2 ^ (- e))%Z as [|p|p] eqn:Ep; try lia.
    simpl. unfold Qinv, inject_Z. simpl. reflexivity.
Qed.

Lemma pow2Q_pos e : 0 < pow2Q e.
Proof. rewrite pow2Q_power. apply Qpower_0_lt. lra. Qed.

Lemma pow2Q_add a b : pow2Q (a + b) == pow2Q a * pow2Q b.
Proof. rewrite !pow2Q_power. apply Qpower_plus. lra. Qed.

Lemma pow2Q_nonneg_inj e : (0 <= e)%Z -> pow2Q e = inject_Z (2 ^ e).
Proof. intros He. unfold pow2Q. destruct (Z.leb_spec 0 e); [reflexivity|lia]. Qed.

Lemma pow2Q_1 : pow2Q 1 == 2. Proof. reflexivity. Qed.
Lemma pow2Q_0 : pow2Q 0 == 1. Proof. reflexivity. Qed.

(** scaledQ a d e is (a/d) / 2^e *)
Lemma scaledQ_spec a d e : (0 < d)%Z -> scaledQ a d e * pow2Q e == inject_Z a / inject_Z d.
Proof.
  intros Hd. unfold scaledQ.
  assert (D0 : ~ inject_Z d == 0) by (unfold Qeq; simpl; lia).
  destruct (Z.leb_spec 0 e) as [He|He].
  - rewrite pow2Q_nonneg_inj by lia.
    assert (P : (0 < 2 ^ e)%Z) by (apply Z.pow_pos_nonneg; lia).
    assert (P2 : (0 < d * 2 ^ e)%Z) by nia.
    assert (E0 : ~ inject_Z (2 ^ e) == 0) by (unfold Qeq; simpl; lia).
    setoid_replace (a # Z.to_pos (d * 2 ^ e)) with (inject_Z a / (inject_Z d * inject_Z (2 ^ e))).
    + field. split; auto.
    + rewrite <- inject_Z_mult. unfold Qeq, Qdiv, Qmult, Qinv, inject_Z. simpl.
      destruct (d * 2 ^ e)%Z as [|p|p] eqn:Ep; try lia. simpl. lia.
  - unfold pow2Q. destruct (Z.leb_spec 0 e); [lia|].
    assert (P : (0 < 2 ^ (- e))%Z) by (apply Z.pow_pos_nonneg; lia).
    unfold Qeq, Qdiv, Qmult, Qinv, inject_Z. simpl.
    destruct d as [|p|p]; try lia. simpl.
    destruct (2 ^ (- e))%Z as [|p2|p2] eqn:Ep; try lia. simpl. lia.
Qed.


Lemma pow2Q_mono a b : (a <= b)%Z -> pow2Q a <= pow2Q b.
Proof.
  intros H. replace b with (a + (b - a))%Z by lia. rewrite pow2Q_add.
  assert (P : 0 < pow2Q a) by apply pow2Q_pos.
  assert (O : 1 <= pow2Q (b - a)).
  { rewrite pow2Q_nonneg_inj by lia.
    assert (0 < 2 ^ (b - a))%Z by (apply Z.pow_pos_nonneg; lia).
    change 1 with (inject_Z 1). rewrite <- Zle_Qle. lia. }
  nra.
Qed.

Lemma pow2Q_neg_inv k : pow2Q (- k) * pow2Q k == 1.
Proof. rewrite <- pow2Q_add. replace (- k + k)%Z with 0%Z by lia. reflexivity. Qed.

Definition gek (a d k : Z) : bool :=
  if (0 <=? k)%Z then (d * 2 ^ k <=? a)%Z else (d <=? a * 2 ^ (- k))%Z.

Lemma gek_spec a d k : gek a d k = true <-> inject_Z d * pow2Q k <= inject_Z a.
Proof.
  unfold gek. destruct (Z.leb_spec 0 k) as [Hk|Hk].
  - rewrite pow2Q_nonneg_inj by lia. rewrite <- inject_Z_mult, <- Zle_Qle. apply Z.leb_le.
  - rewrite Z.leb_le, Zle_Qle, inject_Z_mult. rewrite <- (pow2Q_nonneg_inj (- k)) by lia.
    pose proof (pow2Q_pos k) as P. pose proof (pow2Q_pos (- k)) as P'. pose proof (pow2Q_neg_inv k) as I.
    split; intros H.
    + assert (inject_Z d * pow2Q k <= inject_Z a * pow2Q (- k) * pow2Q k) by nra.
      assert (E : inject_Z a * pow2Q (- k) * pow2Q k == inject_Z a) by (rewrite <- Qmult_assoc, I; ring).
      rewrite E in H0. exact H0.
    + assert (inject_Z d * pow2Q k * pow2Q (- k) <= inject_Z a * pow2Q (- k)) by nra.
      assert (E : inject_Z d * pow2Q k * pow2Q (- k) == inject_Z d).
      { rewrite <- Qmult_assoc, (Qmult_comm (pow2Q k)), I. ring. }
      rewrite E in H0. exact H0.
Qed.

Lemma log2_bounds a : (0 < a)%Z -> pow2Q (Z.log2 a) <= inject_Z a < pow2Q (Z.log2 a + 1).
Proof.
  intros Ha. destruct (Z.log2_spec a Ha) as [L U].
  pose proof (Z.log2_nonneg a).
  rewrite !pow2Q_nonneg_inj by lia. rewrite <- Zle_Qle, <- Zlt_Qlt. split; [exact L|].
  replace (Z.log2 a + 1)%Z with (Z.succ (Z.log2 a)) by lia. exact U.
Qed.

Lemma flog2_spec a d : (0 < a)%Z -> (0 < d)%Z ->
  inject_Z d * pow2Q (flog2 a d) <= inject_Z a < inject_Z d * pow2Q (flog2 a d + 1).
Proof.
  intros Ha Hd.
  destruct (log2_bounds a Ha) as [La Ua]. destruct (log2_bounds d Hd) as [Ld Ud].
  set (la := Z.log2 a) in *. set (ld := Z.log2 d) in *.
  set (k0 := (la - ld)%Z).
  assert (Up : inject_Z a < inject_Z d * pow2Q (k0 + 1)).
  { assert (E : pow2Q (la + 1) == pow2Q (k0 + 1) * pow2Q ld).
    { rewrite <- pow2Q_add. unfold k0. replace (la - ld + 1 + ld)%Z with (la + 1)%Z by lia. reflexivity. }
    rewrite E in Ua. pose proof (pow2Q_pos (k0 + 1)). nra. }
  assert (Lo : inject_Z d * pow2Q (k0 - 1) <= inject_Z a).
  { assert (E : pow2Q la == pow2Q (k0 - 1) * pow2Q (ld + 1)).
    { rewrite <- pow2Q_add. unfold k0. replace (la - ld - 1 + (ld + 1))%Z with la by lia. reflexivity. }
    rewrite E in La. pose proof (pow2Q_pos (k0 - 1)). nra. }
  unfold flog2. fold la ld k0. change (if (0 <=? k0)%Z then (d * 2 ^ k0 <=? a)%Z else (d <=? a * 2 ^ (- k0))%Z) with (gek a d k0).
  destruct (gek a d k0) eqn:G.
  - apply gek_spec in G. split; auto.
  - replace (k0 - 1 + 1)%Z with k0 by lia. split; auto.
    apply Qnot_le_lt. intros C. apply gek_spec in C. congruence.
Qed.

Lemma eps53_pow : pow2Q (-52) * (1 # 2) == eps53.
Proof. reflexivity. Qed.

Lemma Qdiv_mul_cancel a d : ~ d == 0 -> (a / d) * d == a.
Proof. intros. field. auto. Qed.

Lemma fl_pos_err a d : (0 < a)%Z -> (0 < d)%Z ->
  Qabs (fl_pos a d - inject_Z a / inject_Z d) <= (inject_Z a / inject_Z d) * eps53.
Proof.
  intros Ha Hd. unfold fl_pos.
  set (k := flog2 a d). set (e := (k - 52)%Z). set (s := scaledQ a d e).
  set (x := inject_Z a / inject_Z d).
  assert (Dp : 0 < inject_Z d) by (change 0 with (inject_Z 0); rewrite <- Zlt_Qlt; lia).
  assert (D0 : ~ inject_Z d == 0) by lra.
  assert (S : s * pow2Q e == x) by (apply scaledQ_spec; auto).
  pose proof (rhe_near s) as N. apply Qabs_Qle_condition in N as [N1 N2].
  destruct (flog2_spec a d Ha Hd) as [K1 _]. fold k in K1.
  assert (XD : x * inject_Z d == inject_Z a) by (apply Qdiv_mul_cancel; auto).
  assert (Kx : pow2Q k <= x) by (rewrite <- XD in K1; nra).
  assert (E : pow2Q e == pow2Q k * pow2Q (-52)).
  { rewrite <- pow2Q_add. unfold e. replace (k + -52)%Z with (k - 52)%Z by lia. reflexivity. }
  pose proof (pow2Q_pos e) as Pe. pose proof (pow2Q_pos k) as Pk.
  assert (E2 : pow2Q e * (1 # 2) == pow2Q k * eps53) by (rewrite E, <- eps53_pow; ring).
  assert (Pm : 0 < eps53) by (unfold eps53; lra).
  apply Qabs_Qle_condition. rewrite <- S. split; nra.
Qed.

Lemma fl64_err q : Qabs (fl64 q - q) <= Qabs q * eps53.
Proof.
  destruct q as [n d]. unfold fl64. cbn [Qnum Qden]. destruct n as [|a|a].
  - assert (E : 0 - (0 # d) == 0) by (unfold Qeq; simpl; lia). rewrite E. simpl.
    assert (0 <= Qabs (0 # d)) by apply Qabs_nonneg. unfold eps53. nra.
  - assert (Q : (Z.pos a # d) == inject_Z (Z.pos a) / inject_Z (Z.pos d)) by apply Qmake_Qdiv.
    assert (P : 0 < Z.pos a # d) by (unfold Qlt; simpl; lia).
    rewrite (Qabs_pos (Z.pos a # d)) by lra.
    rewrite Q. apply fl_pos_err; lia.
  - assert (Q : (Z.neg a # d) == - (inject_Z (Z.pos a) / inject_Z (Z.pos d))).
    { rewrite <- Qmake_Qdiv. unfold Qeq, Qopp. simpl. reflexivity. }
    assert (P : Z.neg a # d < 0) by (unfold Qlt; simpl; lia).
    rewrite (Qabs_neg (Z.neg a # d)) by lra. rewrite Q.
    pose proof (fl_pos_err (Z.pos a) (Z.pos d) ltac:(lia) ltac:(lia)) as F.
    set (x := inject_Z (Z.pos a) / inject_Z (Z.pos d)) in *. set (v := fl_pos (Z.pos a) (Z.pos d)) in *.
    assert (E : - v - - x == - (v - x)) by ring. rewrite E, Qabs_opp.
    assert (E2 : - - x == x) by ring. rewrite E2. exact F.
Qed.

(** the exponent is determined by the value *)
Lemma flog2_unique x k1 k2 : pow2Q k1 <= x < pow2Q (k1 + 1) -> pow2Q k2 <= x < pow2Q (k2 + 1) -> k1 = k2.
Proof.
  intros [A1 B1] [A2 B2].
  destruct (Z.lt_trichotomy k1 k2) as [L|[E|L]]; auto; exfalso.
  - pose proof (pow2Q_mono (k1 + 1) k2 ltac:(lia)). lra.
  - pose proof (pow2Q_mono (k2 + 1) k1 ltac:(lia)). lra.
Qed.

Lemma flog2_value a d : (0 < a)%Z -> (0 < d)%Z ->
  pow2Q (flog2 a d) <= inject_Z a / inject_Z d < pow2Q (flog2 a d + 1).
Proof.
  intros Ha Hd. destruct (flog2_spec a d Ha Hd) as [K1 K2].
  assert (Dp : 0 < inject_Z d) by (change 0 with (inject_Z 0); rewrite <- Zlt_Qlt; lia).
  assert (XD : (inject_Z a / inject_Z d) * inject_Z d == inject_Z a) by (apply Qdiv_mul_cancel; lra).
  set (x := inject_Z a / inject_Z d) in *. rewrite <- XD in K1, K2.
  pose proof (pow2Q_pos (flog2 a d)). pose proof (pow2Q_pos (flog2 a d + 1)).
  split; nra.
Qed.

Lemma fl_pos_proper a d a' d' : (0 < a)%Z -> (0 < d)%Z -> (0 < a')%Z -> (0 < d')%Z ->
  inject_Z a / inject_Z d == inject_Z a' / inject_Z d' -> fl_pos a d == fl_pos a' d'.
Proof.
  intros Ha Hd Ha' Hd' E. unfold fl_pos.
  pose proof (flog2_value a d Ha Hd) as V. pose proof (flog2_value a' d' Ha' Hd') as V'.
  rewrite E in V. rewrite (flog2_unique _ _ _ V V').
  set (e := (flog2 a' d' - 52)%Z).
  assert (S : scaledQ a d e == scaledQ a' d' e).
  { pose proof (scaledQ_spec a d e Hd) as S1. pose proof (scaledQ_spec a' d' e Hd') as S2.
    rewrite E in S1. pose proof (pow2Q_pos e) as P.
    assert (scaledQ a d e * pow2Q e == scaledQ a' d' e * pow2Q e) by (rewrite S1, S2; reflexivity).
    apply (Qmult_inj_r _ _ (pow2Q e)); [lra|auto]. }
  rewrite (rhe_proper _ _ S). reflexivity.
Qed.

Lemma fl64_proper p q : p == q -> fl64 p == fl64 q.
Proof.
  destruct p as [n d], q as [n' d']. intros E. unfold fl64. cbn [Qnum Qden].
  unfold Qeq in E. cbn [Qnum Qden] in E.
  destruct n as [|a|a], n' as [|a'|a']; try lia; try reflexivity.
  - apply fl_pos_proper; try lia. rewrite <- !Qmake_Qdiv. unfold Qeq. simpl. lia.
  - apply Qopp_comp. apply fl_pos_proper; try lia. rewrite <- !Qmake_Qdiv. unfold Qeq. simpl. lia.
Qed.

Lemma fl_pos_int z : (0 < z < 9007199254740992)%Z -> fl_pos z 1 == inject_Z z.
Proof.
  intros [Hz Hs]. unfold fl_pos.
  pose proof (flog2_value z 1 Hz ltac:(lia)) as [V1 V2].
  assert (X : inject_Z z / inject_Z 1 == inject_Z z) by (field).
  rewrite X in V1, V2.
  set (k := flog2 z 1) in *.
  assert (Hk : (k < 53)%Z).
  { destruct (Z.lt_ge_cases k 53) as [L|G]; auto. exfalso.
    pose proof (pow2Q_mono 53 k G) as M.
    assert (inject_Z z < pow2Q 53).
    { rewrite pow2Q_nonneg_inj by lia. rewrite <- Zlt_Qlt. exact Hs. }
    lra. }
  set (e := (k - 52)%Z).
  assert (He : (e <= 0)%Z) by (unfold e; lia).
  assert (S : scaledQ z 1 e == inject_Z (z * 2 ^ (- e))).
  { unfold scaledQ. destruct (Z.leb_spec 0 e) as [G|G].
    - assert (e = 0%Z) by lia. rewrite H. simpl. unfold Qeq, inject_Z. simpl. lia.
    - reflexivity. }
  rewrite (rhe_proper _ _ S), rhe_int. rewrite inject_Z_mult.
  rewrite <- (pow2Q_nonneg_inj (- e)) by lia.
  rewrite <- Qmult_assoc, pow2Q_neg_inv. ring.
Qed.

Lemma fl64_int z : small z -> fl64 (inject_Z z) == inject_Z z.
Proof.
  unfold small. intros Hs.
  destruct (Z.eq_dec (Z.abs z) 9007199254740992) as [E|E].
  - destruct z as [|p|p]; try discriminate.
    + simpl in E. injection E as ->. vm_compute. reflexivity.
    + simpl in E. injection E as ->. vm_compute. reflexivity.
  - unfold fl64, inject_Z. cbn [Qnum Qden]. destruct z as [|p|p].
    + reflexivity.
    + apply (fl_pos_int (Z.pos p)). lia.
    + change (Z.neg p # 1) with (- inject_Z (Z.pos p)). apply Qopp_comp.
      apply (fl_pos_int (Z.pos p)). lia.
Qed.

End Fl64.

Lemma scale_one_given_fl64 : forall icx icy, small icx -> small icy ->
  (forall x cy, x <> 0 -> truthy cy = false -> icx <> 0 -> small x ->
     exists y, scale fl64 icx icy (Some x) cy = Ok (x, y) /\
       (Qabs (inject_Z y * inject_Z icx - inject_Z x * inject_Z icy)
        <= Qabs (inject_Z icx) * (1 # 2) + Qabs (inject_Z x * inject_Z icy) * (3 * eps53))%Q) /\
  (forall y cx, y <> 0 -> truthy cx = false -> icy <> 0 -> small y ->
     exists x, scale fl64 icx icy cx (Some y) = Ok (x, y) /\
       (Qabs (inject_Z x * inject_Z icy - inject_Z y * inject_Z icx)
        <= Qabs (inject_Z icy) * (1 # 2) + Qabs (inject_Z y * inject_Z icx) * (3 * eps53))%Q).
Proof. exact (scale_one_given fl64 fl64_proper fl64_err fl64_int). Qed.

Lemma fl64_premises :
  (forall p q, (p == q)%Q -> (fl64 p == fl64 q)%Q) /\
  (forall q, (Qabs (fl64 q - q) <= Qabs q * eps53)%Q) /\
  (forall z, small z -> (fl64 (inject_Z z) == inject_Z z)%Q).
Proof. exact (conj fl64_proper (conj fl64_err fl64_int)). Qed.

(* ================================================================== the float quotient truncates to the exact floor *)
Section NativeFloat.
Local Open Scope Q_scope.

Lemma Qfloor_between q z : inject_Z z <= q -> q < inject_Z (z + 1) -> Qfloor q = z.
Proof.
  intros L U.
  assert (A : (z <= Qfloor q)%Z).
  { rewrite <- (Qfloor_Z z). apply Qfloor_resp_le. exact L. }
  assert (B : (Qfloor q < z + 1)%Z).
  { rewrite Zlt_Qlt. eapply Qle_lt_trans; [apply Qfloor_le|exact U]. }
  lia.
Qed.

(** int(a / b) for ints a, b computed in binary64 is the exact floor, in the range of
    native sizes: a = 914400 * px below 2^40 and 1 <= b <= 2048 *)
Lemma div_trunc_exact a b : (0 <= a < 1099511627776)%Z -> (1 <= b <= 2048)%Z ->
  Qfloor (fl64 (inject_Z a / inject_Z b)) = (a / b)%Z.
Proof.
  intros [Ha Ha2] [Hb Hb2].
  pose proof (Z.div_mod a b ltac:(lia)) as DM.
  pose proof (Z.mod_pos_bound a b ltac:(lia)) as MB.
  set (q := (a / b)%Z) in *. set (r := (a mod b)%Z) in *.
  assert (Hq : (0 <= q)%Z) by (apply Z.div_pos; lia).
  assert (Hqa : (q <= a)%Z) by nia.
  assert (Bp : 0 < inject_Z b) by (change 0 with (inject_Z 0); rewrite <- Zlt_Qlt; lia).
  assert (B2 : inject_Z b <= 2048) by (change 2048 with (inject_Z 2048); rewrite <- Zle_Qle; lia).
  set (x := inject_Z a / inject_Z b).
  assert (XB : x * inject_Z b == inject_Z a) by (unfold x; field; lra).
  assert (AQ : inject_Z a == inject_Z q * inject_Z b + inject_Z r).
  { rewrite <- inject_Z_mult, <- inject_Z_plus. rewrite DM at 1. rewrite Z.mul_comm. reflexivity. }
  destruct (Z.eq_dec r 0) as [R0|R0].
  - assert (X : x == inject_Z q).
    { rewrite R0 in AQ. change (inject_Z 0) with 0 in AQ.
      apply (Qmult_inj_r _ _ (inject_Z b)); [lra|]. rewrite XB, AQ. ring. }
    rewrite (Qfloor_comp _ _ (fl64_proper _ _ X)).
    rewrite (Qfloor_comp _ _ (fl64_int q ltac:(unfold small; lia))). apply Qfloor_Z.
  - assert (R1 : 1 <= inject_Z r) by (change 1 with (inject_Z 1); rewrite <- Zle_Qle; lia).
    assert (R2 : inject_Z r <= inject_Z b - 1).
    { assert (T : inject_Z r + 1 <= inject_Z b).
      { change 1 with (inject_Z 1). rewrite <- inject_Z_plus, <- Zle_Qle. lia. }
      lra. }
    assert (A2 : inject_Z a < 1099511627776) by (change 1099511627776 with (inject_Z 1099511627776); rewrite <- Zlt_Qlt; lia).
    assert (A0 : 0 <= inject_Z a) by (change 0 with (inject_Z 0); rewrite <- Zle_Qle; lia).
    assert (Q0 : 0 <= inject_Z q) by (change 0 with (inject_Z 0); rewrite <- Zle_Qle; lia).
    set (y := x - inject_Z q).
    assert (YB : y * inject_Z b == inject_Z r) by (unfold y; rewrite AQ in XB; nra).
    assert (Y1 : 1 # 2048 <= y) by nra.
    assert (Y2 : y <= 1 - (1 # 2048)) by nra.
    assert (X0 : 0 <= x) by nra.
    assert (X2 : x < 1099511627776) by nra.
    pose proof (fl64_err x) as F. rewrite (Qabs_pos x X0) in F.
    apply Qabs_Qle_condition in F as [F1 F2].
    assert (E53 : eps53 * 1099511627776 == 1 # 8192) by reflexivity.
    assert (Ep : 0 < eps53) by (unfold eps53; lra).
    apply Qfloor_between.
    + unfold y in *. nra.
    + rewrite inject_Z_plus. change (inject_Z 1) with 1. unfold y in *. nra.
Qed.

End NativeFloat.

(** int(914400 * px / dpi) evaluated in binary64 is the value the model computes on exact
    integers, for every normalised dpi and every pixel count up to 1202440 *)
Lemma native_float_exact px dpi : 0 <= px -> 914400 * px < 1099511627776 -> 1 <= dpi <= 2048 ->
  Qfloor (fl64 (inject_Z (914400 * px) / inject_Z dpi)) = native_dim px dpi.
Proof.
  intros Hp Hs Hd. unfold native_dim. rewrite Z.quot_div_nonneg by lia.
  apply div_trunc_exact; lia.
Qed.

(* ================================================================== instance helpers for the regenerated tables *)

Lemma tables_sound_gen em sp ict dct ipc :
  tables_ok (map snd em ++ map snd sp) ict dct ipc = true ->
  forall e, (exists fmt, assoc fmt em = Some e) \/ In e (map (@snd (str * nat * blob) str) sp) ->
  exists ct, assoc e ict = Some ct /\ In (e, ct) dct /\
             (forall ct', In (e, ct') dct -> ct' = ct) /\ In ct ipc.
Proof.
  intros T e He. apply (tables_ok_sound _ _ _ _ T). apply in_or_app.
  destruct He as [[fmt A]|A]; [left|right; exact A].
  apply assoc_In in A. change e with (snd (fmt, e)). apply in_map. exact A.
Qed.

Lemma emf_by_header b w h d x :
  image_ext b (Meta (Some [87; 77; 70]%N) w h d x) =
  Ok (if str_eqb (slice b 40 4) [32; 69; 77; 70]%N then [101; 109; 102]%N else [119; 109; 102]%N).
Proof.
  cbn [image_ext special_ext ext_special]. change (length [32; 69; 77; 70]%N) with 4%nat.
  change (str_eqb [87; 77; 70]%N [87; 77; 70]%N) with true. cbn [andb].
  destruct (str_eqb (slice b 40 4) [32; 69; 77; 70]%N); reflexivity.
Qed.
