(** Lemmas about lib/Calendar.v: [civil_of_ordinal] and [ordinal] are mutually inverse
    (all of Z, no range restriction), [of_seconds]/[to_seconds] likewise, and
    [add_seconds] adds seconds. *)
From V.lib Require Import Prelude Calendar.
From Coq Require Import ZifyBool.
Local Open Scope Z_scope.

Ltac Zify.zify_post_hook ::= Z.to_euclidean_division_equations.

(** ---- month tables ---- *)

Lemma month_cases m : 1 <= m <= 12 ->
  m = 1 \/ m = 2 \/ m = 3 \/ m = 4 \/ m = 5 \/ m = 6 \/ m = 7 \/ m = 8 \/ m = 9 \/ m = 10 \/ m = 11 \/ m = 12.
Proof. lia. Qed.

Ltac month_split m H :=
  destruct (month_cases m H) as [?|[?|[?|[?|[?|[?|[?|[?|[?|[?|[?|?]]]]]]]]]]]; subst m.

Ltac tables :=
  repeat match goal with
  | |- context [dbm_l ?l ?m] => let v := eval vm_compute in (dbm_l l m) in change (dbm_l l m) with v
  | |- context [dim_l ?l ?m] => let v := eval vm_compute in (dim_l l m) in change (dim_l l m) with v
  | H : context [dbm_l ?l ?m] |- _ => let v := eval vm_compute in (dbm_l l m) in change (dbm_l l m) with v in H
  | H : context [dim_l ?l ?m] |- _ => let v := eval vm_compute in (dim_l l m) in change (dim_l l m) with v in H
  end.

Lemma dbm_succ leap m : 1 <= m <= 11 -> dbm_l leap (m + 1) = dbm_l leap m + dim_l leap m.
Proof.
  intros H. assert (H' : 1 <= m <= 12) by lia.
  month_split m H'; destruct leap; try reflexivity; lia.
Qed.

Lemma dbm_12 leap : dbm_l leap 12 + dim_l leap 12 = if leap then 366 else 365.
Proof. destruct leap; reflexivity. Qed.

Lemma dim_pos leap m : 28 <= dim_l leap m <= 31.
Proof.
  unfold dim_l. destruct (m =? 2); [destruct leap; lia|].
  destruct ((m =? 4) || (m =? 6) || (m =? 9) || (m =? 11)); lia.
Qed.

Lemma dbm_mono leap m m' : 1 <= m -> m < m' -> m' <= 12 ->
  dbm_l leap m + dim_l leap m <= dbm_l leap m'.
Proof.
  intros H1 H2 H3. assert (Ha : 1 <= m <= 12) by lia. assert (Hb : 1 <= m' <= 12) by lia.
  month_split m Ha; month_split m' Hb; try lia; destruct leap; vm_compute; congruence.
Qed.

Lemma dbm_range leap m d : 1 <= m <= 12 -> 1 <= d <= dim_l leap m ->
  1 <= dbm_l leap m + d <= if leap then 366 else 365.
Proof.
  intros Hm Hd. month_split m Hm; destruct leap; tables; lia.
Qed.

(** ---- day of year to month/day ---- *)

Lemma month_day_of_yday_spec (leap : bool) r :
  0 <= r < (if leap return Z then 366 else 365) ->
  let '(m, d) := month_day_of_yday leap r in
  1 <= m <= 12 /\ 1 <= d <= dim_l leap m /\ dbm_l leap m + d = r + 1.
Proof.
  intros Hr. unfold month_day_of_yday.
  assert (Hm : 1 <= (r + 50) / 32 <= 12) by (destruct leap; lia).
  remember ((r + 50) / 32) as mo eqn:Emo.
  assert (Hb : 32 * mo <= r + 50 < 32 * mo + 32) by lia.
  clear Emo.
  month_split mo Hm; destruct leap; tables;
    match goal with |- context [?a <? ?b] => destruct (Z.ltb_spec a b) end;
    try change (1 - 1) with 0; try change (2 - 1) with 1; try change (3 - 1) with 2;
    try change (4 - 1) with 3; try change (5 - 1) with 4; try change (6 - 1) with 5;
    try change (7 - 1) with 6; try change (8 - 1) with 7; try change (9 - 1) with 8;
    try change (10 - 1) with 9; try change (11 - 1) with 10; try change (12 - 1) with 11;
    tables; lia.
Qed.

(** ---- years ---- *)

Lemma dby_succ y : days_before_year (y + 1) = days_before_year y + days_in_year y.
Proof.
  unfold days_before_year, days_in_year, is_leap.
  replace (y + 1 - 1) with y by lia.
  destruct (((y mod 4 =? 0) && negb (y mod 100 =? 0)) || (y mod 400 =? 0)) eqn:E; lia.
Qed.

Lemma dby_mono y y' : y <= y' -> days_before_year y + 365 * (y' - y) <= days_before_year y'.
Proof. unfold days_before_year. intros H. lia. Qed.

Lemma diy_bounds y : 365 <= days_in_year y <= 366.
Proof. unfold days_in_year; destruct (is_leap y); lia. Qed.

(** A valid date lies within its year. *)
Lemma ordinal_in_year y m d : valid_date (y, m, d) = true ->
  days_before_year y < ordinal (y, m, d) <= days_before_year (y + 1).
Proof.
  unfold valid_date, ordinal, days_in_month, days_before_month. intros H.
  assert (Hm : 1 <= m <= 12) by lia.
  assert (Hd : 1 <= d <= dim_l (is_leap y) m) by lia.
  pose proof (dbm_range (is_leap y) m d Hm Hd) as R.
  rewrite dby_succ. unfold days_in_year. destruct (is_leap y); lia.
Qed.

Lemma ordinal_inj a b : valid_date a = true -> valid_date b = true ->
  ordinal a = ordinal b -> a = b.
Proof.
  destruct a as [[y m] d], b as [[y' m'] d']. intros Va Vb E.
  pose proof (ordinal_in_year _ _ _ Va) as Ia.
  pose proof (ordinal_in_year _ _ _ Vb) as Ib.
  assert (y = y').
  { destruct (Z.lt_trichotomy y y') as [L|[L|L]]; auto.
    - pose proof (dby_mono (y + 1) y' ltac:(lia)). lia.
    - pose proof (dby_mono (y' + 1) y ltac:(lia)). lia. }
  subst y'. unfold valid_date, ordinal, days_in_month, days_before_month in *.
  assert (m = m').
  { destruct (Z.lt_trichotomy m m') as [L|[L|L]]; auto.
    - pose proof (dbm_mono (is_leap y) m m' ltac:(lia) L ltac:(lia)). lia.
    - pose proof (dbm_mono (is_leap y) m' m ltac:(lia) L ltac:(lia)). lia. }
  subst m'. assert (d = d') by lia. subst. reflexivity.
Qed.

(** ---- civil_of_ordinal ---- *)

Lemma is_leap_true_iff y : is_leap y = true <-> (y mod 4 = 0 /\ y mod 100 <> 0) \/ y mod 400 = 0.
Proof. unfold is_leap. lia. Qed.

Lemma civil_of_ordinal_spec n0 :
  valid_date (civil_of_ordinal n0) = true /\ ordinal (civil_of_ordinal n0) = n0.
Proof.
  unfold civil_of_ordinal.
  set (n := n0 - 1).
  set (n400 := n / 146097). set (r1 := n mod 146097).
  set (n100 := r1 / 36524). set (r2 := r1 mod 36524).
  set (n4 := r2 / 1461). set (r3 := r2 mod 1461).
  set (n1 := r3 / 365). set (r := r3 mod 365).
  assert (E1 : n = 146097 * n400 + r1 /\ 0 <= r1 < 146097) by (subst n400 r1; lia).
  assert (E2 : r1 = 36524 * n100 + r2 /\ 0 <= r2 < 36524) by (subst n100 r2; lia).
  assert (E3 : r2 = 1461 * n4 + r3 /\ 0 <= r3 < 1461) by (subst n4 r3; lia).
  assert (E4 : r3 = 365 * n1 + r /\ 0 <= r < 365) by (subst n1 r; lia).
  clearbody n400 r1 n100 r2 n4 r3 n1 r.
  assert (B100 : 0 <= n100 <= 4) by lia.
  assert (B4 : 0 <= n4 <= 24) by lia.
  assert (B1 : 0 <= n1 <= 4) by lia.
  destruct ((n1 =? 4) || (n100 =? 4)) eqn:Esp.
  - (* last day of a leap year *)
    set (Y := n400 * 400 + 1 + n100 * 100 + n4 * 4 + n1 - 1).
    assert (HY : Y = n400 * 400 + n100 * 100 + n4 * 4 + n1) by (subst Y; lia).
    assert (Hr : r = 0) by lia.
    assert (Hleap : is_leap Y = true).
    { apply is_leap_true_iff. clearbody Y. lia. }
    unfold valid_date, ordinal, days_in_month, days_before_month. rewrite Hleap.
    split; [reflexivity|]. tables.
    unfold days_before_year. clearbody Y. subst n. lia.
  - set (Y := n400 * 400 + 1 + n100 * 100 + n4 * 4 + n1).
    set (leap := (n1 =? 3) && (negb (n4 =? 24) || (n100 =? 3))).
    assert (HY : Y - 1 = n400 * 400 + n100 * 100 + n4 * 4 + n1) by (subst Y; lia).
    assert (Hleap : is_leap Y = leap).
    { clearbody Y. subst leap. apply eq_true_iff_eq. rewrite is_leap_true_iff. lia. }
    assert (Hr : 0 <= r < (if leap return Z then 366 else 365)) by (destruct leap; lia).
    pose proof (month_day_of_yday_spec leap r Hr) as S.
    destruct (month_day_of_yday leap r) as [m d]. destruct S as [Sm [Sd Se]].
    unfold valid_date, ordinal, days_in_month, days_before_month. rewrite Hleap.
    split; [lia|].
    unfold days_before_year. clearbody Y leap. subst n. lia.
Qed.

Theorem ordinal_civil n : ordinal (civil_of_ordinal n) = n.
Proof. apply civil_of_ordinal_spec. Qed.

Theorem civil_valid n : valid_date (civil_of_ordinal n) = true.
Proof. apply civil_of_ordinal_spec. Qed.

Theorem civil_ordinal dt : valid_date dt = true -> civil_of_ordinal (ordinal dt) = dt.
Proof.
  intros V. apply ordinal_inj; auto using civil_valid, ordinal_civil.
Qed.

(** The ordinal is strictly monotone in the (year, month, day) order. *)
Lemma ordinal_year_bounds dt : valid_date dt = true ->
  let '(y, _, _) := dt in days_before_year y < ordinal dt <= days_before_year (y + 1).
Proof. destruct dt as [[y m] d]. apply ordinal_in_year. Qed.

(** Python range: ordinals 1..3652059 are exactly the dates of years 1..9999. *)
Lemma ordinal_py_range dt : valid_date dt = true ->
  let '(y, _, _) := dt in (1 <= y <= 9999 <-> 1 <= ordinal dt <= 3652059).
Proof.
  destruct dt as [[y m] d]. intros V. pose proof (ordinal_in_year _ _ _ V) as I.
  assert (D1 : days_before_year 1 = 0) by reflexivity.
  assert (D2 : days_before_year 10000 = 3652059) by reflexivity.
  split; intros H.
  - pose proof (dby_mono 1 y ltac:(lia)). pose proof (dby_mono (y + 1) 10000 ltac:(lia)). lia.
  - destruct (Z_lt_le_dec y 1).
    + pose proof (dby_mono (y + 1) 1 ltac:(lia)). lia.
    + destruct (Z_lt_le_dec 9999 y); [|lia].
      pose proof (dby_mono 10000 y ltac:(lia)). lia.
Qed.

(** ---- seconds ---- *)

Lemma valid_time_bounds h mi s : valid_time h mi s = true ->
  0 <= h < 24 /\ 0 <= mi < 60 /\ 0 <= s < 60.
Proof. unfold valid_time. lia. Qed.

Theorem of_to_seconds t : valid_datetime t = true -> of_seconds (to_seconds t) = t.
Proof.
  destruct t as [y m d h mi s]. unfold valid_datetime, to_seconds, of_seconds, date_of; cbn [dt_year dt_month dt_day dt_hour dt_minute dt_second].
  intros V. apply andb_true_iff in V as [Vd Vt]. apply valid_time_bounds in Vt.
  set (o := ordinal (y, m, d)).
  assert (Eq : (o * 86400 + h * 3600 + mi * 60 + s) / 86400 = o) by lia.
  assert (Er : (o * 86400 + h * 3600 + mi * 60 + s) mod 86400 = h * 3600 + mi * 60 + s) by lia.
  rewrite Eq, Er. subst o. rewrite (civil_ordinal _ Vd).
  f_equal; lia.
Qed.

Theorem to_of_seconds n : to_seconds (of_seconds n) = n.
Proof.
  unfold of_seconds, to_seconds, date_of.
  pose proof (ordinal_civil (n / 86400)) as O.
  destruct (civil_of_ordinal (n / 86400)) as [[y m] d].
  cbn [dt_year dt_month dt_day dt_hour dt_minute dt_second]. rewrite O. lia.
Qed.

Theorem of_seconds_valid n : valid_datetime (of_seconds n) = true.
Proof.
  unfold of_seconds, valid_datetime, date_of, valid_time.
  pose proof (civil_valid (n / 86400)) as V.
  destruct (civil_of_ordinal (n / 86400)) as [[y m] d].
  cbn [dt_year dt_month dt_day dt_hour dt_minute dt_second]. rewrite V. lia.
Qed.

Theorem add_seconds_spec t k : to_seconds (add_seconds t k) = to_seconds t + k.
Proof. unfold add_seconds. apply to_of_seconds. Qed.

Theorem add_seconds_valid t k : valid_datetime (add_seconds t k) = true.
Proof. apply of_seconds_valid. Qed.

Theorem add_seconds_0 t : valid_datetime t = true -> add_seconds t 0 = t.
Proof. intros V. unfold add_seconds. rewrite Z.add_0_r. apply of_to_seconds; auto. Qed.

Theorem add_seconds_add t a b : add_seconds (add_seconds t a) b = add_seconds t (a + b).
Proof. unfold add_seconds at 1 3. rewrite add_seconds_spec. f_equal. lia. Qed.

(** [to_seconds] is injective on valid date-times: equal instants are equal date-times. *)
Theorem to_seconds_inj a b : valid_datetime a = true -> valid_datetime b = true ->
  to_seconds a = to_seconds b -> a = b.
Proof.
  intros Va Vb E. rewrite <- (of_to_seconds a Va), <- (of_to_seconds b Vb), E. reflexivity.
Qed.

Lemma datetime_eqb_eq a b : datetime_eqb a b = true <-> a = b.
Proof.
  destruct a as [y m d h mi s], b as [y' m' d' h' mi' s']; unfold datetime_eqb; cbn [dt_year dt_month dt_day dt_hour dt_minute dt_second].
  split.
  - intros H. f_equal; lia.
  - intros H; inversion H; subst. lia.
Qed.
