From Coq Require Import Extraction ExtrOcamlBasic.
From V.model Require Import OpcRun.
Extraction Language OCaml.
Cd "extract".
Extraction "c01.ml" run_c01.
Cd "..".
