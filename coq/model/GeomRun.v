(** Runner entry point for the C17 correspondence: [run_c17 args], first field = the
    operation name.  Three kinds of case, each a whole history:

    conn | bx | by | ex | ey | k1 | v1 | k2 | v2 ...     k in bx by ex ey
        add_connector then the assignments in order; output: the readings after
        creation, then outcome and readings after every assignment
        (readings = begin_x begin_y end_x end_y x y cx cy flipH flipV).
    grp | op1 | op2 ...      op = kind SP path SP a SP b SP c SP d      (SP = one space)
        kind in sp tb pic (a b c d = x y cx cy), cxn (begin/end), ff (freeform with
        the single segment 0,0 -> c,d placed at origin a,b), grp (kind SP path only);
        every kind recalculates the receiving group and its ancestors;
        path = a dash for the slide itself or child indices joined by dots;
        further operations of a group history:
        set SP path SP f SP v      f in l t w h: member.left / top / width / height = v
            on the EXISTING member at that path (a shape or a group; for a group this
            writes a:off / a:ext only and recalculates nothing);
        xf SP path SP x SP y SP cx SP cy SP chx SP chy SP chcx SP chcy      the a:xfrm of
            the group at that path as another producer wrote it (all eight numbers,
            within the schema ranges, otherwise the case is malformed);
        reopen      the deck is saved and loaded again (the model keeps every number);
        output: the whole slide after every operation, ending at the first error.
    ff | sx | sy | xscale | yscale | ox | oy | op1 ...
        sx sy and vertex coordinates are exact rationals n/d (the value Python
        round() receives), scales are i SP z or f SP m SP e (the float m * 2^e),
        op = L SP n/d SP n/d, M SP n/d SP n/d, or C;
        output: left top width height w h, then the path children. *)
From V.lib Require Import Prelude Wire.
From V.model Require Import Geom.
Open Scope Z_scope.

Definition op_conn : str := [99; 111; 110; 110]%N.  (* conn *)
Definition op_grp : str := [103; 114; 112]%N.  (* grp *)
Definition op_ff : str := [102; 102]%N.  (* ff *)
Definition k_bx : str := [98; 120]%N.  (* bx *)
Definition k_by : str := [98; 121]%N.  (* by *)
Definition k_ex : str := [101; 120]%N.  (* ex *)
Definition k_ey : str := [101; 121]%N.  (* ey *)
Definition k_sp : str := [115; 112]%N.  (* sp *)
Definition k_tb : str := [116; 98]%N.  (* tb *)
Definition k_pic : str := [112; 105; 99]%N.  (* pic *)
Definition k_cxn : str := [99; 120; 110]%N.  (* cxn *)
Definition k_grp : str := [103; 114; 112]%N.  (* grp *)
Definition k_ff : str := [102; 102]%N.  (* ff *)
Definition k_i : str := [105]%N.  (* i *)
Definition k_f : str := [102]%N.  (* f *)
Definition k_L : str := [76]%N.  (* L *)
Definition k_M : str := [77]%N.  (* M *)
Definition k_C : str := [67]%N.  (* C *)
Definition k_G : str := [71]%N.  (* G *)
Definition k_dash : str := [45]%N.  (* - *)
Definition k_set : str := [115; 101; 116]%N.  (* set *)
Definition k_xf : str := [120; 102]%N.  (* xf *)
Definition k_reopen : str := [114; 101; 111; 112; 101; 110]%N.  (* reopen *)
Definition k_l : str := [108]%N.  (* l *)
Definition k_t : str := [116]%N.  (* t *)
Definition k_w : str := [119]%N.  (* w *)
Definition k_h : str := [104]%N.  (* h *)
Definition w_okw : str := [111; 107]%N.  (* ok *)
Definition w_sp : str := [32]%N.
Definition c_space : N := 32%N.

Fixpoint opt_all {A} (l : list (option A)) : option (list A) :=
  match l with
  | [] => Some []
  | None :: _ => None
  | Some a :: r => match opt_all r with Some r' => Some (a :: r') | None => None end
  end.

Definition toks (s : str) : list str := split_on c_space s.
Definition nums (l : list Z) : str := join_with w_sp (map show_Z l).
Definition show_b (b : bool) : Z := if b then 1 else 0.

(* ---- connector ---- *)

Definition show_conn (c : conn) : str :=
  nums [begin_x c; begin_y c; end_x c; end_y c; c_x c; c_y c; c_cx c; c_cy c;
        show_b (c_fh c); show_b (c_fv c)].

Definition show_outcome (e : option pyerr) : str :=
  match e with None => w_okw | Some e => w_err ++ show_err e end.

Fixpoint parse_cops (l : list str) : option (list cop) :=
  match l with
  | [] => Some []
  | k :: v :: r =>
      match parse_Z v, parse_cops r with
      | Some z, Some ops =>
          if str_eqb k k_bx then Some (SetBX z :: ops)
          else if str_eqb k k_by then Some (SetBY z :: ops)
          else if str_eqb k k_ex then Some (SetEX z :: ops)
          else if str_eqb k k_ey then Some (SetEY z :: ops)
          else None
      | _, _ => None
      end
  | _ => None
  end.

Definition run_conn (a b c d : str) (rest : list str) : str :=
  match parse_Z a, parse_Z b, parse_Z c, parse_Z d, parse_cops rest with
  | Some bx, Some by_, Some ex, Some ey, Some ops =>
      let c0 := add_cxn bx by_ ex ey in
      fields (show_conn c0 ::
              map (fun s => show_outcome (snd s) ++ w_sp ++ show_conn (fst s)) (conn_trace c0 ops))
  | _, _, _, _, _ => w_badcase
  end.

(* ---- freeform ---- *)

(** n/d with d > 0: the integer Python round() gives on that exact value. *)
Definition parse_round (s : str) : option Z :=
  match split_on c_slash s with
  | [n; d] =>
      match parse_Z n, parse_N d with
      | Some n, Some d => if (0 <? d)%N then Some (rhe n (Z.of_N d)) else None
      | _, _ => None
      end
  | _ => None
  end.

Definition parse_scale (s : str) : option scale :=
  match toks s with
  | [k; z] => if str_eqb k k_i then option_map SInt (parse_Z z) else None
  | [k; m; e] =>
      if str_eqb k k_f then
        match parse_Z m, parse_Z e with
        | Some m, Some e =>
            (* exactly the finite binary64 values *)
            if (Z.abs m <? 2 ^ 53) && (-1074 <=? e) && (e <=? 971) then Some (SFlt m e) else None
        | _, _ => None
        end
      else None
  | _ => None
  end.

Definition parse_fop (s : str) : option fop :=
  match toks s with
  | [k] => if str_eqb k k_C then Some FClose else None
  | [k; x; y] =>
      match parse_round x, parse_round y with
      | Some x, Some y =>
          if str_eqb k k_L then Some (FLine x y)
          else if str_eqb k k_M then Some (FMove x y)
          else None
      | _, _ => None
      end
  | _ => None
  end.

Definition show_fop (op : fop) : str :=
  match op with
  | FLine x y => k_L ++ w_sp ++ nums [x; y]
  | FMove x y => k_M ++ w_sp ++ nums [x; y]
  | FClose => k_C
  end.

Definition show_fshape (f : fshape) : str :=
  fields ((w_ok ++ nums [f_left f; f_top f; f_width f; f_height f; f_w f; f_h f])
          :: map show_fop (f_path f)).

Definition run_ff (sx sy xs ys ox oy : str) (rest : list str) : str :=
  match parse_round sx, parse_round sy, parse_scale xs, parse_scale ys,
        parse_Z ox, parse_Z oy, opt_all (map parse_fop rest) with
  | Some sx, Some sy, Some xs, Some ys, Some ox, Some oy, Some ops =>
      match convert (mkFb sx sy xs ys ops) ox oy with
      | Ok f => show_fshape f
      | Err e => w_err ++ show_err e
      end
  | _, _, _, _, _, _, _ => w_badcase
  end.

(* ---- groups ---- *)

(** A child index; clamped so that an absurd index stays a small unary number (any
    index beyond the number of members is an IndexErr anyway). *)
Definition parse_idx (s : str) : option nat :=
  match parse_N s with Some n => Some (N.to_nat (N.min n 4096)) | None => None end.

Definition parse_path (s : str) : option (list nat) :=
  if str_eqb s k_dash then Some [] else opt_all (map parse_idx (split_on c_dot s)).

(** The member a freeform with the single segment (0,0) -> (c,d), scale 1, origin
    (a,b) becomes. *)
Definition ff_leaf (a b c d : Z) : res shape :=
  bind (convert (mkFb 0 0 (SInt 1) (SInt 1) [FLine c d; FClose]) a b) (fun f =>
    Ok (Leaf (f_left f) (f_top f) (f_width f) (f_height f))).

Definition cxn_leaf (bx by_ ex ey : Z) : shape :=
  let c := add_cxn bx by_ ex ey in Leaf (c_x c) (c_y c) (c_cx c) (c_cy c).

(** One operation of a group history: an addition (path and the member to add, or the
    exception building it raises), or one of the other operations of [hop]. *)
Inductive gcmd :=
| CAdd (p : list nat) (new : res shape)
| COp (op : hop).

Definition parse_fld (s : str) : option fld :=
  if str_eqb s k_l then Some FLeft
  else if str_eqb s k_t then Some FTop
  else if str_eqb s k_w then Some FWidth
  else if str_eqb s k_h then Some FHeight
  else None.

Definition parse_gcmd (s : str) : option gcmd :=
  match toks s with
  | [k] => if str_eqb k k_reopen then Some (COp HReopen) else None
  | [k; p] =>
      if str_eqb k k_grp then
        match parse_path p with Some p => Some (CAdd p (Ok (member_shape MGroup))) | None => None end
      else None
  | [k; p; f; v] =>
      if str_eqb k k_set then
        match parse_path p, parse_fld f, parse_Z v with
        | Some p, Some f, Some v => Some (COp (HSet p f v))
        | _, _, _ => None
        end
      else None
  | [k; p; a; b; c; d] =>
      match parse_path p, parse_Z a, parse_Z b, parse_Z c, parse_Z d with
      | Some p, Some a, Some b, Some c, Some d =>
          if str_eqb k k_sp || str_eqb k k_tb || str_eqb k k_pic then Some (CAdd p (Ok (Leaf a b c d)))
          else if str_eqb k k_cxn then Some (CAdd p (Ok (cxn_leaf a b c d)))
          else if str_eqb k k_ff then Some (CAdd p (ff_leaf a b c d))
          else None
      | _, _, _, _, _ => None
      end
  | [k; p; x; y; cx; cy; chx; chy; chcx; chcy] =>
      if str_eqb k k_xf then
        match parse_path p, opt_all (map parse_Z [x; y; cx; cy; chx; chy; chcx; chcy]) with
        | Some p, Some [x; y; cx; cy; chx; chy; chcx; chcy] =>
            (* the document must stay schema-valid: a:off, a:chOff are ST_Coordinate,
               a:ext, a:chExt are ST_PositiveCoordinate *)
            if coord_ok x && coord_ok y && pos_ok cx && pos_ok cy
               && coord_ok chx && coord_ok chy && pos_ok chcx && pos_ok chcy
            then Some (COp (HFrame p (mkG x y cx cy chx chy chcx chcy)))
            else None
        | _, _ => None
        end
      else None
  | _ => None
  end.

(** The driver first walks the path (IndexErr), then performs the addition. *)
Definition gcmd_step (sl : slide) (c : gcmd) : res slide :=
  match c with
  | CAdd p (Ok new) => hstep sl (HAdd p new)
  | CAdd p (Err e) =>
      match slide_add p (Leaf 0 0 0 0) sl with Err IndexErr => Err IndexErr | _ => Err e end
  | COp op => hstep sl op
  end.

Fixpoint gcmd_trace (sl : slide) (cs : list gcmd) : list (res slide) :=
  match cs with
  | [] => []
  | c :: r => match gcmd_step sl c with
              | Ok sl' => Ok sl' :: gcmd_trace sl' r
              | Err e => [Err e]
              end
  end.

Fixpoint show_shape (s : shape) : str :=
  match s with
  | Leaf x y cx cy => k_L ++ w_sp ++ nums [x; y; cx; cy]
  | Grp g kids =>
      k_G ++ w_sp ++ nums [g_x g; g_y g; g_cx g; g_cy g; g_chx g; g_chy g; g_chcx g; g_chcy g]
      ++ w_sp ++ [40%N]
      ++ (fix go (l : list shape) : str :=
            match l with [] => [] | k :: r => w_sp ++ show_shape k ++ go r end) kids
      ++ w_sp ++ [41%N]
  end.

Definition show_slide (sl : slide) : str := join_with [59%N; 32%N] (map show_shape sl).

Definition run_grp (rest : list str) : str :=
  match opt_all (map parse_gcmd rest) with
  | Some cs => fields (map (show_res show_slide) (gcmd_trace [] cs))
  | None => w_badcase
  end.

Definition run_c17 (args : list str) : str :=
  match args with
  | op :: rest =>
      if str_eqb op op_conn then
        match rest with
        | a :: b :: c :: d :: r => run_conn a b c d r
        | _ => w_badcase
        end
      else if str_eqb op op_grp then run_grp rest
      else if str_eqb op op_ff then
        match rest with
        | sx :: sy :: xs :: ys :: ox :: oy :: r => run_ff sx sy xs ys ox oy r
        | _ => w_badcase
        end
      else w_badcase
  | [] => w_badcase
  end.
