(** C07: a chart's XML reports exactly the data it was given.  Statements only; every
    proof is [exact] of a lemma of proofs/ChartData_proofs.v.

    Vocabulary (model/ChartData.v, proofs/ChartData_proofs.v):
    [write ct d] the chart part a writer makes for XL_CHART_TYPE value [ct] and chart data
    [d]; [replace sc d c] Chart.replace_data ([sc] = the successor declarations of
    c:ser's data children, arbitrary); [area_sers c] plotArea.sers; [chart_names],
    [chart_values] what series.name / series.values report over all plots (values are the
    text of c:v, None where there is no c:pt); [plot_cat_labels], [plot_flattened],
    [plot_cat_levels], [plot_cat_depth], [plot_cat_count] = list(categories),
    flattened_labels, levels as (idx, label), depth and len of plot.categories;
    [data_names d], [data_values d] names and (Y) values supplied; [paths_f f] the
    root-to-leaf label paths of the category forest [f]; [levels f] Categories.levels of the
    chart data (leaf level first, idx = offset of the first leaf); [kept ct l] = [l] except
    for the pie types where it is the first element of [l]; [cat_text b f D l] the text
    reported for label [l] (see [C07_label_text]).
    A plot holds its c:ser elements in DOCUMENT sequence ([p_sers]); [plot_sers] / [area_sers]
    sort them by c:order within each plot.  No theorem about replace_data supposes that the
    two sequences agree or that c:order values are contiguous or confined to one plot.
    [keeps tags s' s]: same idx, same order, same children other than the data children
    [tags]; [doc_marks tags p]: (idx, order, other children) of the c:ser of [p] in document
    sequence; [subseq a b]: [a] is [b] with some elements left out. *)
From V.lib Require Import Prelude Wire Calendar.
From V.model Require Import ChartData.
From V.proofs Require Import ChartData_proofs ChartDataOrder_proofs.
Local Open Scope Z_scope.

(** values: every series, every position, None where the value was missing, empty series
    included; X values of XY and bubble charts; idx and order unique. *)
Theorem C07_values : forall ct d c, write ct d = Ok c ->
  chart_names c = kept ct (data_names d) /\
  chart_values c = kept ct (data_values d) /\
  uniq (area_sers c) /\
  match d with DCat _ _ _ => True | _ => chart_xvalues c = kept ct (data_xvalues d) end.
Proof. exact write_reports. Qed.
Print Assumptions C07_values.

Theorem C07_bubble_sizes : forall ct sers c, ct = 15 \/ ct = 87 -> write ct (DBub sers) = Ok c ->
  chart_sizes c = data_sizes (DBub sers).
Proof. exact write_bubble_sizes. Qed.
Print Assumptions C07_bubble_sizes.

(** Reading the cache a writer builds gives back the list of values. *)
Theorem C07_cache_roundtrip : forall fmt vals, read_cache (num_cache fmt vals) = vals.
Proof. exact read_num_cache. Qed.
Print Assumptions C07_cache_roundtrip.

(** names, labels and format codes come back verbatim for all strings (a carriage return
    used to come back as a line feed before fix d4e5a870): names in [C07_values] and
    [C07_replace], labels in [C07_label_text], format codes in [C07_number_format] *)
Theorem C07_names : forall ct d c, write ct d = Ok c -> chart_names c = kept ct (data_names d).
Proof. exact (fun ct d c H => proj1 (write_reports ct d c H)). Qed.
Print Assumptions C07_names.

Example C07_cr_regression : exists c p s vc, write 57 w_cr_data = Ok c /\ ch_plots c = [p] /\ p_sers p = [s] /\
  chart_names c = data_names w_cr_data /\ chart_names c = [w_cr] /\
  plot_cat_labels p = [w_cr; [13%N]] /\
  first_some kid_val (s_kids s) = Some vc /\ ca_fmt vc = Some w_cr.
Proof. exact cr_regression. Qed.

(** the full statement (every chart type reports every series) is refuted for pie types *)
Theorem C07_values_pie_refuted : exists ct d c, write ct d = Ok c /\
  chart_values c <> data_values d /\ chart_names c <> data_names d.
Proof. exact pie_refuted. Qed.
Print Assumptions C07_values_pie_refuted.

(** idx / order unique after write (in [C07_values]) and after any sequence of replace_data *)
Theorem C07_idx_order_unique : forall sc ct d ops c0 c,
  write ct d = Ok c0 -> replace_all sc ops c0 = Ok c -> uniq (area_sers c).
Proof.
  exact (fun sc ct d ops c0 c Hw Hr =>
           history_uniq sc ops c0 c (proj1 (proj2 (proj2 (write_reports ct d c0 Hw)))) Hr).
Qed.
Print Assumptions C07_idx_order_unique.

Theorem C07_idx_order_preserved : forall sc ops c c',
  uniq (area_sers c) -> replace_all sc ops c = Ok c' -> uniq (area_sers c').
Proof. exact history_uniq. Qed.
Print Assumptions C07_idx_order_preserved.

(** categories of a written chart: count, depth, flattened labels = root-to-leaf paths
    (ragged branching allowed), list(categories) = the leaves, levels with idx = first-leaf
    offset. *)
Theorem C07_categories : forall ct f fmt sers c,
  write ct (DCat f fmt sers) = Ok c -> sers <> [] -> f <> [] ->
  exists p, ch_plots c = [p] /\
  exists D, forest_depth f = Some D /\ (1 <= D)%nat /\
    let tau := cat_text false f D in
    plot_cat_count p = leaves_f f /\
    plot_cat_depth p = Z.of_nat D /\
    plot_flattened p = map (map tau) (paths_f f) /\
    plot_cat_labels p = map (fun path => tau (last path dlabel)) (paths_f f) /\
    plot_cat_levels p = if Nat.eqb D 1 then [] else map (map (tau' tau)) (levels f).
Proof. exact write_categories. Qed.
Print Assumptions C07_categories.

(** the parentage scan on levels whose idx are first-leaf offsets finds the ancestors *)
Theorem C07_flattened : forall tau f D, f <> [] -> all_depth D f ->
  flattened_of_levels (map (map (tau' tau)) (levels f)) = map (map tau) (paths_f f).
Proof. exact flattened_levels. Qed.
Print Assumptions C07_flattened.

(** label texts: strings verbatim (every string: empty, with carriage returns), numbers as
    Python's text of the number, dates as the serial number with one decimal *)
Theorem C07_label_text :
  (forall b f D s, cat_numeric f D = false -> cat_text b f D (LStr s) = s) /\
  (forall b f t, cat_numeric f 1 = true -> cat_text b f 1 (LNum t) = t) /\
  (forall b f y m d, cat_numeric f 1 = true ->
     cat_text b f 1 (LDate y m d) = show_Z (excel_serial b y m d) ++ s_dot0).
Proof. exact (conj cat_text_str (conj cat_text_num cat_text_date)). Qed.
Print Assumptions C07_label_text.

Theorem C07_serial : forall y m d,
  let n := ordinal (y, m, d) - ordinal (1899, 12, 31) in
  excel_serial false y m d = (if n <=? 59 then n else n + 1) /\
  excel_serial true y m d = ordinal (y, m, d) - ordinal (1904, 1, 1) /\
  excel_serial false y m d <> 60.
Proof. exact excel_serial_spec. Qed.
Print Assumptions C07_serial.

Theorem C07_serial_monotone : forall b y1 m1 d1 y2 m2 d2,
  ordinal (y1, m1, d1) < ordinal (y2, m2, d2) -> excel_serial b y1 m1 d1 < excel_serial b y2 m2 d2.
Proof. exact excel_serial_mono. Qed.
Print Assumptions C07_serial_monotone.

Example C07_serial_leap_bug :
  excel_serial false 1900 2 28 = 59 /\ excel_serial false 1900 3 1 = 61 /\
  excel_serial false 1900 1 1 = 1 /\ excel_serial true 1904 1 2 = 1.
Proof. repeat split. Qed.

(** an empty label is reported as the empty string (was refuted before fix fc4e9fce) *)
Theorem C07_categories_empty_label : forall b f D, cat_numeric f D = false -> cat_text b f D (LStr []) = [].
Proof. exact (fun b f D H => cat_text_str b f D [] H). Qed.
Print Assumptions C07_categories_empty_label.

Example C07_empty_label_regression : exists ct f sers c p,
  write ct (DCat f None sers) = Ok c /\ ch_plots c = [p] /\
  f = [CatNode (LStr []) []; CatNode (LStr [98%N]) []] /\
  plot_cat_labels p = map (fun t => label_str (tree_label t)) f /\ plot_cat_labels p = [[]; [98%N]] /\
  plot_flattened p = [[[]]; [[98%N]]].
Proof. exact empty_label_regression. Qed.

(** number formats: kept as given, and never a reason for a writer to fail (was refuted
    for a double quote on date categories before fix db8d5348) *)
Theorem C07_number_format :
  (forall fmt vals, ca_fmt (num_cache fmt vals) = Some fmt) /\
  (forall b f fmt cx, write_cat b f (Some fmt) = Ok cx -> cx_kind cx = 1%N -> cx_fmt cx = Some fmt).
Proof. exact number_format_kept. Qed.
Print Assumptions C07_number_format.

Theorem C07_write_total : forall ct ptag pre post f fmt sers D,
  writer_of ct = Some (WCatPlain, ptag, pre, post) -> forest_depth f = Some D -> sers <> [] ->
  exists c, write ct (DCat f fmt sers) = Ok c.
Proof. exact write_cat_total. Qed.
Print Assumptions C07_write_total.

Example C07_date_format_quote_regression : exists c p s cx vc, write 57 w_date_quote = Ok c /\ ch_plots c = [p] /\
  p_sers p = [s] /\ first_some kid_cat (s_kids s) = Some cx /\ first_some kid_val (s_kids s) = Some vc /\
  cx_fmt cx = Some w_quote_fmt /\ ca_fmt vc = Some w_quote_fmt /\
  plot_cat_labels p = [[52; 51; 56; 51; 49; 46; 48]%N].
Proof. exact date_quote_regression. Qed.

Theorem C07_foreign_levels_refuted : exists leaf parent : Z * str,
  fst leaf < fst parent /\ flattened_of_levels [[leaf]; [parent]] = [[snd parent; snd leaf]].
Proof. exact foreign_levels_refuted. Qed.
Print Assumptions C07_foreign_levels_refuted.

(** replace_data: the new names and values are reported (plots all of the kind of the
    first one, which holds for every chart a writer makes) *)
Theorem C07_replace : forall sc d c c', replace sc d c = Ok c' -> homog (ch_plots c) ->
  length (area_sers c') = data_len d /\
  chart_names c' = data_names d /\
  chart_values c' = data_values d /\
  (forall p0 r, ch_plots c = p0 :: r -> is_xy_plot (p_tag p0) = true -> chart_xvalues c' = data_xvalues d) /\
  (forall p0 r, ch_plots c = p0 :: r -> p_tag p0 = pt_bubble -> chart_sizes c' = data_sizes d).
Proof. exact replace_reports. Qed.
Print Assumptions C07_replace.

Theorem C07_homog_written : forall ct d c, write ct d = Ok c -> homog (ch_plots c).
Proof. exact homog_written. Qed.
Print Assumptions C07_homog_written.

Theorem C07_replace_categories : forall sc f fmt sers c c',
  replace sc (DCat f fmt sers) c = Ok c' -> sers <> [] -> f <> [] ->
  forall p, In p (ch_plots c') -> p_sers p <> [] ->
  exists D, forest_depth f = Some D /\ (1 <= D)%nat /\
    let tau := cat_text (ch_1904 c) f D in
    plot_cat_count p = leaves_f f /\
    plot_cat_depth p = Z.of_nat D /\
    plot_flattened p = map (map tau) (paths_f f) /\
    plot_cat_labels p = map (fun path => tau (last path dlabel)) (paths_f f) /\
    plot_cat_levels p = if Nat.eqb D 1 then [] else map (map (tau' tau)) (levels f).
Proof. exact replace_categories. Qed.
Print Assumptions C07_replace_categories.

(** replace_data changes names, categories and values only *)
Theorem C07_replace_keeps : forall sc d c c', replace sc d c = Ok c' ->
  exists rk, rewriter_kind c = Ok rk /\
  let old := area_sers c in
  let new := area_sers c' in
  let n := data_len d in
  ch_1904 c' = ch_1904 c /\ ch_rest c' = ch_rest c /\ length new = n /\
  Forall2 (keeps (rk_tags rk)) (firstn (length old) new) (firstn n old) /\
  (forall s, In s (skipn (length old) new) ->
     exists src, In src old /\ other_kids (rk_tags rk) (s_kids s) = other_kids (rk_tags rk) (s_kids src)) /\
  map frame (ch_plots c') = (if Nat.ltb n (length old) then surviving n (ch_plots c) else map frame (ch_plots c)).
Proof. exact replace_keeps. Qed.
Print Assumptions C07_replace_keeps.

(** the series removed are exactly the last ones of plotArea.sers *)
Theorem C07_trim : forall k ps,
  area_sers_of (trim k ps) = firstn (length (area_sers_of ps) - k) (area_sers_of ps).
Proof. exact area_sers_trim. Qed.
Print Assumptions C07_trim.

(** which series a shrinking replace_data leaves, on ANY start state (series stored out of
    c:order sequence, c:order with gaps, interleaved across the plots of a combination
    chart): exactly the first n of plotArea.sers, each with its idx, order and every child
    that is not a data child *)
Theorem C07_shrink_survivors : forall sc d c c', replace sc d c = Ok c' ->
  (data_len d <= length (area_sers c))%nat ->
  exists rk, rewriter_kind c = Ok rk /\
  Forall2 (keeps (rk_tags rk)) (area_sers c') (firstn (data_len d) (area_sers c)).
Proof. exact shrink_survivors. Qed.
Print Assumptions C07_shrink_survivors.

(** replace_data never moves a c:ser in the document: when series are removed every plot keeps
    a subsequence of its document sequence and the plots left with none are gone; otherwise
    every plot keeps frame and whole sequence, the new series come in between *)
Theorem C07_replace_document_order : forall sc d c c', replace sc d c = Ok c' ->
  exists rk, rewriter_kind c = Ok rk /\
  let tags := rk_tags rk in
  if Nat.ltb (data_len d) (length (area_sers c)) then
    exists M, Forall2 (fun m p => subseq m (doc_marks tags p)) M (ch_plots c) /\
              map (doc_marks tags) (ch_plots c') = filter nonempty M
  else
    Forall2 (fun p' p => frame p' = frame p /\ subseq (doc_marks tags p) (doc_marks tags p'))
            (ch_plots c') (ch_plots c).
Proof. exact replace_document_order. Qed.
Print Assumptions C07_replace_document_order.

(** non-vacuity on a foreign start state: two plots, document sequence order 9 2 5 | 7 3, idx
    4 8 0 | 6 1, plotArea.sers idx 8 0 4 | 1 6.  Two series leave idx 8 and 0 standing where
    they stood: the c:ser removed from the first plot is the FIRST of the document (removal by
    document position would have kept idx 4 and 8); four series keep the c:ser that is LAST
    in the document *)
Example C07_ex_foreign_shrink : exists c2 c4,
  replace std_succs w_two foreign_chart = Ok c2 /\
  map s_idx (area_sers foreign_chart) = [8; 0; 4; 1; 6] /\
  map s_order (area_sers foreign_chart) = [2; 5; 9; 3; 7] /\
  map s_idx (concat (map p_sers (ch_plots foreign_chart))) = [4; 8; 0; 6; 1] /\
  map s_idx (area_sers c2) = [8; 0] /\ map s_order (area_sers c2) = [2; 5] /\
  map (doc_marks [tg_tx; tg_cat; tg_val]) (ch_plots c2) =
    [[(8, 2, [KOther tg_spPr 2]); (0, 5, [KOther tg_spPr 3])]] /\
  map frame (ch_plots c2) = [(pt_bar, 1%N)] /\
  chart_names c2 = [[115%N]; [116%N]] /\
  replace std_succs w_four foreign_chart = Ok c4 /\
  map (doc_marks [tg_tx; tg_cat; tg_val]) (ch_plots c4) =
    [[(4, 9, [KOther tg_spPr 1]); (8, 2, [KOther tg_spPr 2]); (0, 5, [KOther tg_spPr 3])]; [(1, 3, [KOther tg_spPr 5])]] /\
  chart_names c4 = [[97%N]; [98%N]; [99%N]; [100%N]] /\
  (data_len w_two < length (area_sers foreign_chart))%nat.
Proof. exact foreign_shrink. Qed.

(** inside the property's domain replace_data can fail *)
Theorem C07_replace_no_series_refuted :
  (exists ct d0 d c0, write ct d0 = Ok c0 /\ data_len d = 1%nat /\ replace std_succs d c0 = Err OtherErr) /\
  (exists ct d0 d c0 c1, write ct d0 = Ok c0 /\ data_len d = 1%nat /\ replace std_succs w_none c0 = Ok c1 /\
                         ch_plots c1 = [] /\ replace std_succs d c1 = Err IndexErr).
Proof. exact replace_no_series_refuted. Qed.
Print Assumptions C07_replace_no_series_refuted.

(** non-vacuity *)
Example C07_ex_write_multi : exists c p, write 4 ex_multi = Ok c /\ ch_plots c = [p] /\
  forest_depth ex_forest = Some 3%nat /\
  plot_flattened p = [[[65]; [97; 49]; [120]]; [[65]; [97; 49]; [121]]; [[65]; [97; 50]; [122]]; [[66]; [98; 49]; [119]]]%N /\
  map (map fst) (plot_cat_levels p) = [[0; 1; 2; 3]; [0; 2; 3]; [0; 3]] /\
  chart_values c = [[Some [49%N]; None; Some [51%N]; Some [52%N]]].
Proof. exact ex_write_multi. Qed.

Example C07_ex_write_xy : exists c, write 74 ex_xy = Ok c /\ chart_values c = [[Some [50%N]; Some [51%N]]] /\
  chart_xvalues c = [Some [Some [49%N]; None]].
Proof. exact ex_write_xy. Qed.

Example C07_ex_history : exists c0 c, write 57 w_one = Ok c0 /\ homog (ch_plots c0) /\
  replace_all std_succs [DCat w_cats None [w_ser [97%N] []; w_ser [98%N] [None]; w_ser [99%N] []; w_ser [100%N] []];
                         w_two; ex_multi] c0 = Ok c /\
  map s_idx (area_sers c) = [0] /\ chart_names c = [[115%N]] /\
  chart_values c = [[Some [49%N]; None; Some [51%N]; Some [52%N]]].
Proof. exact ex_history. Qed.
