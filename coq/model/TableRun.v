(** Runner entry point for the C14 correspondence.
    [run_c14 (rows :: cols :: width :: height :: ops)]: create the table, apply the
    operations in order, print the outcome and the whole observable state after the
    creation and after every operation.
    An operation is one field of space-separated tokens:
      M r1 c1 r2 c2 | X r c | S r c | H i h | W j w | T r c cp cp cp ...
    A field that starts with the token q is applied without being printed. *)
From V.lib Require Import Prelude Wire.
From V.model Require Import Table.

Definition show_b01 (b : bool) : str := if b then [49%N] else [48%N].

Definition sp : str := [32%N].

(** gridSpan rowSpan hMerge vMerge is_merge_origin is_spanned nparas/para,para,... *)
Definition show_cell (c : cell) : str :=
  join_with sp [show_nat (gridSpan c); show_nat (rowSpan c); show_b01 (hMerge c); show_b01 (vMerge c);
                show_b01 (is_merge_origin c); show_b01 (is_spanned c); show_nat (length (paras c))]
  ++ [47%N] ++ join_with [44%N] (map show_str (paras c)).

Definition show_row (r : list cell) : str := join_with [59%N] (map show_cell r).

(** cx cy|widths|heights|row!row!... *)
Definition show_table (t : table) : str :=
  fields [join_with sp [show_Z (cx t); show_Z (cy t)];
          join_with sp (map show_Z (widths t));
          join_with sp (map show_Z (heights t));
          join_with [33%N] (map show_row (grid t))].

Definition show_unit (u : unit) : str := [].

Fixpoint all_some {A} (l : list (option A)) : option (list A) :=
  match l with
  | [] => Some []
  | Some a :: l' => match all_some l' with Some r => Some (a :: r) | None => None end
  | None :: _ => None
  end.

Definition parse_op_toks (toks : list str) : option op :=
  match toks with
  | [k] :: rest =>
      if N.eqb k 84%N then                                   (* T r c cps *)
        match rest with
        | r :: c :: cps =>
            match parse_nat r, parse_nat c, all_some (map parse_N cps) with
            | Some r, Some c, Some s => Some (SetText r c s)
            | _, _, _ => None
            end
        | _ => None
        end
      else if N.eqb k 77%N then                              (* M r1 c1 r2 c2 *)
        match map parse_nat rest with
        | [Some a; Some b; Some c; Some d] => Some (Merge a b c d)
        | _ => None
        end
      else if N.eqb k 88%N then                              (* X r c *)
        match map parse_nat rest with
        | [Some a; Some b] => Some (MergeForeign a b)
        | _ => None
        end
      else if N.eqb k 83%N then                              (* S r c *)
        match map parse_nat rest with
        | [Some a; Some b] => Some (Split a b)
        | _ => None
        end
      else if N.eqb k 72%N then                              (* H i h *)
        match rest with
        | [i; h] => match parse_nat i, parse_Z h with
                    | Some i, Some h => Some (SetRowH i h)
                    | _, _ => None
                    end
        | _ => None
        end
      else if N.eqb k 87%N then                              (* W j w *)
        match rest with
        | [j; w] => match parse_nat j, parse_Z w with
                    | Some j, Some w => Some (SetColW j w)
                    | _, _ => None
                    end
        | _ => None
        end
      else None
  | _ => None
  end.

(** (quiet, operation) *)
Definition parse_op (f : str) : option (bool * op) :=
  match split_on 32%N f with
  | [113%N] :: toks => option_map (fun o => (true, o)) (parse_op_toks toks)
  | toks => option_map (fun o => (false, o)) (parse_op_toks toks)
  end.

Fixpoint run_steps (t : table) (ops : list (bool * op)) : list str :=
  match ops with
  | [] => []
  | (quiet, o) :: ops' =>
      let '(t', r) := step t o in
      if quiet then run_steps t' ops'
      else (show_res show_unit r ++ [64%N] ++ show_table t') :: run_steps t' ops'
  end.

Definition run_c14 (args : list str) : str :=
  match args with
  | rows :: cols :: width :: height :: opfs =>
      match parse_nat rows, parse_nat cols, parse_Z width, parse_Z height, all_some (map parse_op opfs) with
      | Some r, Some c, Some w, Some h, Some ops =>
          match new_tbl r c w h with
          | Ok t => join_with [35%N] ((w_ok ++ [64%N] ++ show_table t) :: run_steps t ops)
          | Err e => w_err ++ show_err e
          end
      | _, _, _, _, _ => w_badcase
      end
  | _ => w_badcase
  end.
