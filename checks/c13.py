"""C13 — a new slide mirrors its layout's placeholders and inherits their geometry.

translate  tx/tx_c13.py re-extracts every literal table of the cloning / naming / inheritance
           code from the current tree of /repo into coq/gen/GenC13.v
prove      props/C13.v over model/Placeholder.v (generic in the tables, instantiated on gen)
           and over model/PlaceholderPkg.v (the slide list: part identity vs part name, the relationship
           table of the presentation part, p:sldIdLst; add / edit / delete / save and re-open)
correspond the extracted model (run_c13) against python-pptx on every layout of every .pptx
           under /repo and on generated populations of the master, a layout and the notes
           master of the default template, over operation histories (add_slide repeatedly,
           shapes.clone_placeholder on slides that already hold shapes, notes_slide, geometry setters on slide / layout / master / notes / notes master (first assignments to inheriting placeholders included), xfrm removal,
           renames that collide with future placeholder names, deletions, text boxes, a
           malformed stream of out-of-range indices and values; deleting the first / a middle / the last
           slide by the usual recipe (drop_rel + p:sldId, or the p:sldId alone), saving and re-opening inside
           histories, start decks whose slide part names are out of order / have gaps / that hold related but
           unlisted slide parts, with the renaming done by the first access of prs.slides)
oracle     the property's own statement evaluated on the real XML and on what the public API
           reports, independent of the model; for the slide list on the objects themselves (after add_slide
           prs.slides[-1] is the returned slide, every earlier position designates the same part object,
           ids / rIds distinct, exactly one relationship more; after save + re-open same slides).
"""
import glob
import io
import json
import multiprocessing
import os
import warnings
import zipfile

from corr.harness import COQ, REPO, VERIF, _run, coq_build, exc_name, run_model

P = "{http://schemas.openxmlformats.org/presentationml/2006/main}"
A = "{http://schemas.openxmlformats.org/drawingml/2006/main}"
MAXC = 27273042316900
MINC = -27273042329600
ATTRS = ("left", "top", "width", "height")
R_ID = "{http://schemas.openxmlformats.org/officeDocument/2006/relationships}id"
MARK = "verif-new"      # p:cSld/@name of the slides a history creates: they are shown in full, before and after re-opening

TB = [
    "model/PlaceholderPkg.v reuses the allocators and relationship functions of model/Ids.v and model/PkgOps.v (next_rId, next_slide_id_Z, next_slide_partname / next_partname, rename_slide_parts, get_or_add by target identity, pop_rel, related_part) and Opc.rid_leb / sort_by for the order relationships are written in; XmlPart._rel_ref_count, OpcPackage.iter_parts restricted to the parts related from the presentation part, and the zip reader's last-member-wins are transcribed by hand (exercised by the correspondence)",
    "the deletion recipes (R: prs.part.drop_rel(sldId.rId) + sldIdLst.remove(sldId); U: sldIdLst.remove(sldId) alone) and save + re-open (S: prs.save to memory, Presentation(bytes), first access of prs.slides) are harness code; slides a history creates are marked with p:cSld/@name so that they can be told from the deck's own after re-opening",
    "tx/tx_c13.py (translator: tuple / dict literals inside functions read from the AST, enum members and p:ph defaults from the live classes, template trees from the live constructors); fail-closed via n_unmodelled",
    "lxml xpath //@id and //p:cNvPr/@name, str %-formatting of '%s %d', python sorted() stability and list membership are modelled in model/Placeholder.v (tied by this correspondence, not verified)",
    "ST_Coordinate / ST_PositiveCoordinate ranges, the TextBox base name, and the dict order (left, top, width, height) and evaluation order of _InheritsDimensions._set_dimension together with which proxy class each collection hands out are transcribed by hand in the model (exercised by the correspondence)",
    "the oracle reads p:ph attributes and a:xfrm with raw lxml calls and applies the schema defaults (type obj, idx 0, orient horz, sz full) itself",
]
ASSUME = [
    "slide list: every reachable part whose name begins like a slide part name is related from the presentation part itself, and no slide part is related from another slide part (true of all 67 decks under /repo; a deck with such a link gets no save steps), so that the parts OpcPackage.iter_parts meets with such names and the order the writer meets them are those of the presentation part's relationships",
    "slide list: histories of ONE session keep rIds, slide ids and listed parts distinct and no two reachable parts share a name, so saving loses nothing (C13_pkg_history_invariant, C13_pkg_history_save, since repair 086e8ef1 of _next_slide_partname); across sessions this needs that no related slide part is unlisted (C13_pkg_history_all_sessions): rename_slide_parts on the first access of prs.slides does not look at unlisted parts, and a deck that holds one (p:sldId removed with the relationship kept, a failed add_slide, a start deck made that way) can lose a listed slide at the save after the next re-opening -- modelled exactly (C13_pkg_unlisted_collision_refuted), tied by the correspondence, and reported by the oracle under the root cause recorded for C06, signature unlisted-slide-partname-collision",
    "placeholders on layouts, masters and notes masters are p:sp elements (true of all 67 decks under /repo); a p:pic or p:graphicFrame carrying p:ph on a layout is outside the model and such decks are skipped and counted",
    "every layout part is related to the slide master that lists it (tests/test_files/missing_rels_item.pptx is a deliberately damaged package whose layout has no .rels item: skipped and counted)",
    "inheritance follows the idx link: the layout counterpart of a slide placeholder is the FIRST layout placeholder with the same idx; with duplicate idx values in one layout (e.g. two placeholders without idx attribute) later clones report the geometry of the first, theorem C13_inherit_dup_idx_refuted; the oracle judges those cases against the first match and counts them (class dup-idx)",
    "same-order is judged on the shape tree (z-order); slide.placeholders iterates sorted by idx (stable), which the model and the oracle check separately",
    "slides present in a corpus deck before the case starts are opaque to the model (only their layout reference is modelled); the oracle checks them byte-for-byte",
    "shape ids and names inside group shapes are not modelled (no case adds a group to a new slide)",
    "python ints only; negative list indices are not generated",
    "the property speaks about geometry until overridden: an ACCEPTED assignment to one dimension of a slide / notes-slide placeholder overrides that dimension only; the oracle checks that the other three keep reporting the value they reported (C13_slide_set_keeps, C13_notes_set_keeps, C13_step_set_slide_geom); a dimension for which neither layout nor master gives anything reads None before and may read 0 afterwards (exactly when its partner in a:off / a:ext was written, C13_set_dim_eff): modelled, proved and tied by the correspondence, not judged by the oracle; what an assignment does to layout, master and notes-master placeholders (a master placeholder has the plain setter: the partner dimension becomes an own 0, C13_set_own) is likewise modelled, proved, tied and not judged",
    "a REFUSED value leaves the shape untouched (C13_set_dim_err, C13_set_rejected), which the oracle checks (the four dimensions read the same before and after); when an acceptable value raises all the same the oracle requires the three dimensions that were not named to read as before",
    "sizes on layouts and masters are non-negative, as the schema requires (ST_PositiveCoordinate; true of every deck under /repo): a placeholder inheriting e.g. a negative height reports it, and the first assignment to such a placeholder raises ValueError while writing the displaced inherited values, leaving those written so far in place (third case of C13_set_dim_err, C13_set_dim_partial_example); modelled, proved, tied by two directed histories, and not judged by the oracle (class schema-invalid-inherited)",
]

_META = None


def meta():
    global _META
    if _META is None:
        _META = json.load(open(os.path.join(COQ, "gen", "c13_meta.json")))
        _META["xml2val"] = {v[1]: v[0] for v in _META["types"].values()}
        _META["val2xml"] = {v[0]: v[1] for v in _META["types"].values()}
    return _META


# ----------------------------------------------------------------------------- deck files
def corpus_files():
    fs = [REPO + "/src/pptx/templates/default.pptx"]
    fs += sorted(glob.glob(REPO + "/tests/test_files/*.pptx"))
    fs += sorted(glob.glob(REPO + "/features/steps/test_files/*.pptx"))
    return fs


_BYTES = {}


def deck_bytes(path):
    if path not in _BYTES:
        with open(path if path != "default" else REPO + "/src/pptx/templates/default.pptx", "rb") as f:
            _BYTES[path] = f.read()
    return _BYTES[path]


_PREP = {}


def start_bytes(case):
    """The file a history starts from.  case[prep] describes an irregular start deck made from case[deck]:
    add  -- layouts to add slides from (these slides are opaque to the model, like the deck's own),
    names -- the number in the part name of every listed slide, in presentation order (out of order, with gaps),
    unlist -- positions whose p:sldId is removed while the relationship stays (related, unlisted slide parts)."""
    prep = case.get("prep")
    if not prep:
        return deck_bytes(case["deck"])
    key = (case["deck"], json.dumps(prep, sort_keys=True))
    if key not in _PREP:
        from pptx import Presentation
        from pptx.opc.packuri import PackURI

        prs = Presentation(io.BytesIO(deck_bytes(case["deck"])))
        lays = [l for m in prs.slide_masters for l in m.slide_layouts]
        for l in prep.get("add", []):
            prs.slides.add_slide(lays[l])
        parts = [sl.part for sl in prs.slides]
        if prep.get("names"):
            assert len(prep["names"]) == len(parts) and len(set(prep["names"])) == len(parts)
            for part, n in zip(parts, prep["names"]):
                part.partname = PackURI("/ppt/slides/slide%d.xml" % n)
        lst = prs.part._element.sldIdLst
        for i in sorted(prep.get("unlist", []), reverse=True):
            lst.remove(lst.sldId_lst[i])
        buf = io.BytesIO()
        prs.save(buf)
        assert len(set(zipfile.ZipFile(io.BytesIO(buf.getvalue())).namelist())) == len(zipfile.ZipFile(io.BytesIO(buf.getvalue())).namelist())
        _PREP[key] = buf.getvalue()
    return _PREP[key]


def dotted(text):
    return ".".join(str(ord(ch)) for ch in text)


# ----------------------------------------------------------------------------- raw XML reading
def shape_children(spTree):
    tags = {P + "sp", P + "grpSp", P + "graphicFrame", P + "cxnSp", P + "pic", P + "contentPart"}
    return [e for e in spTree if e.tag in tags]


def raw_ph(el):
    """The p:ph element of a shape element, by plain lxml navigation."""
    nv = el[0] if len(el) else None
    if nv is None:
        return None
    nvpr = nv.find(P + "nvPr")
    if nvpr is None:
        return None
    return nvpr.find(P + "ph")


def raw_key(ph):
    """(type xml, idx, orient, sz) with the schema defaults applied."""
    return (ph.get("type", "obj"), int(ph.get("idx", "0")), ph.get("orient", "horz"), ph.get("sz", "full"))


def raw_xfrm(el):
    """(off, ext) of a p:sp / p:pic: each a pair of ints or None."""
    spPr = el.find(P + "spPr")
    if spPr is None:
        return None, None
    x = spPr.find(A + "xfrm")
    if x is None:
        return None, None
    off, ext = x.find(A + "off"), x.find(A + "ext")
    return (None if off is None else (int(off.get("x")), int(off.get("y"))),
            None if ext is None else (int(ext.get("cx")), int(ext.get("cy"))))


def raw_cnvpr(el):
    return el[0].find(P + "cNvPr")


def ph_sps(spTree):
    """Placeholder shapes of a tree; second result False when one of them is not a p:sp."""
    out, ok = [], True
    for e in shape_children(spTree):
        if raw_ph(e) is not None:
            if e.tag != P + "sp":
                ok = False
            out.append(e)
    return out, ok


def shape_field(el):
    """Wire form of one shape for the model, read with raw lxml."""
    m = meta()
    c = raw_cnvpr(el)
    ph = raw_ph(el)
    off, ext = raw_xfrm(el)
    toks = [c.get("id")]
    if ph is None:
        toks += ["-", "x", "-", "-"]
    else:
        t, i, o, z = ph.get("type"), ph.get("idx"), ph.get("orient"), ph.get("sz")
        toks += ["-" if t is None else str(m["xml2val"][t]), "-" if i is None else str(int(i)),
                 "-" if o is None else str(m["orients"].index(o)), "-" if z is None else str(m["szs"].index(z))]
    toks += ["-", "-"] if off is None else [str(off[0]), str(off[1])]
    toks += ["-", "-"] if ext is None else [str(ext[0]), str(ext[1])]
    toks.append("1" if el.find(P + "txBody") is not None else "0")
    toks += [str(ord(ch)) for ch in c.get("name", "")]
    return " ".join(toks)


# ----------------------------------------------------------------------------- populations
def sp_xml(spec):
    """A p:sp element for a generated population entry."""
    from pptx.oxml import parse_xml
    from pptx.oxml.ns import nsdecls

    ph = ""
    if spec.get("ph", True):
        attrs = ""
        for k in ("type", "orient", "sz", "idx"):
            if spec.get(k) is not None:
                attrs += ' %s="%s"' % (k, spec[k])
        ph = "<p:ph%s/>" % attrs
    x = ""
    if spec.get("off") is not None or spec.get("ext") is not None or spec.get("empty_xfrm"):
        x = "<a:xfrm>"
        if spec.get("off") is not None:
            x += '<a:off x="%d" y="%d"/>' % tuple(spec["off"])
        if spec.get("ext") is not None:
            x += '<a:ext cx="%d" cy="%d"/>' % tuple(spec["ext"])
        x += "</a:xfrm>"
    tx = "<p:txBody><a:bodyPr/><a:lstStyle/><a:p/></p:txBody>" if spec.get("tx") else ""
    return parse_xml(
        '<p:sp %s><p:nvSpPr><p:cNvPr id="%d" name="%s"/><p:cNvSpPr/><p:nvPr>%s</p:nvPr></p:nvSpPr><p:spPr>%s</p:spPr>%s</p:sp>'
        % (nsdecls("a", "p"), spec["id"], spec["name"], ph, x, tx))


def populate(spTree, specs):
    for e in shape_children(spTree):
        spTree.remove(e)
    ext = spTree.find(P + "extLst")
    for s in specs:
        el = sp_xml(s)
        if ext is not None:
            ext.addprevious(el)
        else:
            spTree.append(el)


# ----------------------------------------------------------------------------- implementation side
class Deck:
    """One opened presentation with the bookkeeping the harness needs."""

    def __init__(self, case):
        from pptx import Presentation
        from pptx.opc.constants import RELATIONSHIP_TYPE as RT

        self.RT = RT
        self.Presentation = Presentation
        self.prs = Presentation(io.BytesIO(start_bytes(case)))
        prs = self.prs
        pop = case.get("pop") or {}
        self.bind()
        if pop.get("master") is not None:
            populate(self.masters[0]._element.cSld.spTree, pop["master"])
        if pop.get("layout") is not None:
            li, specs = pop["layout"]
            populate(self.layouts[li]._element.cSld.spTree, specs)
        if pop.get("nm") is not None:
            populate(prs.notes_master._element.cSld.spTree, pop["nm"])
        self.cache = {}
        # the presentation part as the file has it, before the first access of prs.slides renames anything
        self.pkg0 = self.pkg_fields()
        try:
            len(list(prs.slides))
            self.load_error = None
        except Exception as e:  # noqa
            self.load_error = "err:" + exc_name(e)

    def bind(self):
        """Masters and layouts of the presentation object at hand (again after re-opening)."""
        prs = self.prs
        self.masters = list(prs.slide_masters)
        self.layouts = [l for m in self.masters for l in m.slide_layouts]
        self.layout_master = [mi for mi, m in enumerate(self.masters) for _ in m.slide_layouts]

    def slide_rels(self):
        """(rId, target part) of the internal slide relationships of the presentation part, dict order."""
        return [(rid, r.target_part) for rid, r in self.prs.part.rels.items()
                if r.reltype == self.RT.SLIDE and not r.is_external]

    def canon(self):
        """Slide parts numbered by first occurrence among the slide relationships: object identity up to renaming."""
        out = []
        for _, p in self.slide_rels():
            if not any(p is q for q in out):
                out.append(p)
        return out

    def sld_ids(self):
        lst = self.prs.part._element.sldIdLst
        return [] if lst is None else list(lst.sldId_lst)

    def pkg_fields(self):
        from pptx.parts.slide import SlidePart

        pp = self.prs.part
        parts, rels = [], []
        for rid, r in pp.rels.items():
            if r.is_external:
                rels.append("%s,x,-" % dotted(rid))
                continue
            t = r.target_part
            k = next((i for i, q in enumerate(parts) if q is t), None)
            if k is None:
                k = len(parts)
                parts.append(t)
            cls = "s" if r.reltype == self.RT.SLIDE else "n" if r.reltype == self.RT.NOTES_MASTER else "o"
            rels.append("%s,%s,%d" % (dotted(rid), cls, k))
        pf = []
        for t in parts:
            kind = "-"
            if isinstance(t, SlidePart):
                kind = str(self.layout_index(t.slide_layout.part))
            pf.append("%s,%s" % (kind, dotted(str(t.partname))))
        ids = ["%d,%s" % (int(e.get("id")), dotted(e.rId)) for e in self.sld_ids()]
        xr = [dotted(el.get(R_ID)) for el in pp._element.iter() if el.tag != P + "sldId" and isinstance(el.tag, str) and el.get(R_ID) is not None]
        return ";".join([" ".join(pf), " ".join(rels), " ".join(ids), " ".join(xr)])

    # ---- structure
    def modelable(self):
        for m in self.masters:
            if not ph_sps(m._element.cSld.spTree)[1]:
                return False
        for i, l in enumerate(self.layouts):
            if not ph_sps(l._element.cSld.spTree)[1]:
                return False
            # a layout part must be related to the master that lists it (missing_rels_item.pptx
            # ships a layout without its .rels item: a damaged package, outside the property)
            ms = [r.target_part for r in l.part.rels.values() if r.reltype == self.RT.SLIDE_MASTER and not r.is_external]
            if len(ms) != 1 or ms[0] is not self.masters[self.layout_master[i]].part:
                return False
        nm = self.notes_master_part()
        if nm is not None and not ph_sps(nm._element.cSld.spTree)[1]:
            return False
        return True

    def notes_master_part(self):
        for r in self.prs.part.rels.values():
            if r.reltype == self.RT.NOTES_MASTER and not r.is_external:
                return r.target_part
        return None

    def layout_index(self, part):
        for i, l in enumerate(self.layouts):
            if l.part is part:
                return i
        return -1

    def model_fields(self):
        ms = "/".join(";".join(shape_field(e) for e in ph_sps(m._element.cSld.spTree)[0]) for m in self.masters)
        ls = "/".join(";".join([str(self.layout_master[i])] + [shape_field(e) for e in ph_sps(l._element.cSld.spTree)[0]])
                      for i, l in enumerate(self.layouts))
        nm = self.notes_master_part()
        nmf = "-" if nm is None else ";".join(shape_field(e) for e in ph_sps(nm._element.cSld.spTree)[0])
        return ["run", ms, ls, self.pkg0, nmf]

    # ---- observation (same text as PlaceholderRun.show_deck)
    @staticmethod
    def geom(shape, attr):
        try:
            v = getattr(shape, attr)
        except Exception as e:  # noqa
            return "err:" + exc_name(e)
        return "ok:None" if v is None else "ok:%d" % int(v)

    def show_shape(self, shape):
        m = meta()
        el = shape._element
        if el.has_ph_elm:
            key = "%d %d %d %d" % (el.ph_type.value, el.ph_idx, m["orients"].index(el.ph_orient), m["szs"].index(el.ph_sz))
        else:
            key = "-"
        return ",".join([str(shape.shape_id), " ".join(str(ord(c)) for c in shape.name), key,
                         "1" if el.find(P + "txBody") is not None else "0"] + [self.geom(shape, a) for a in ATTRS])

    @staticmethod
    def is_new(part):
        return part._element.cSld.get("name") == MARK

    def mark_new_parts(self, known):
        """Mark every slide part the presentation part is related to now and was not before."""
        for _, p in self.slide_rels():
            if not any(p is q for q in known) and hasattr(p, "slide"):
                p._element.cSld.set("name", MARK)

    def show_slide(self, part):
        slide = part.slide
        li = self.layout_index(part.slide_layout.part)
        if not self.is_new(part):
            return "%d:::-" % li
        shapes = ";".join(self.show_shape(s) for s in slide.shapes)
        order = " ".join(str(p.shape_id) for p in slide.placeholders)
        notes = "-"
        if slide.has_notes_slide:
            notes = ";".join(self.show_shape(s) for s in slide.notes_slide.shapes)
        return "%d:%s:%s:%s" % (li, shapes, order, notes)

    def show_pkg(self):
        canon = self.canon()
        num = lambda p: next(i for i, q in enumerate(canon) if q is p)  # noqa: E731
        ids = ",".join("%d %s" % (int(e.get("id")), e.rId) for e in self.sld_ids())
        rels = ",".join(rid + (">%d" % num(r.target_part) if (r.reltype == self.RT.SLIDE and not r.is_external) else "")
                        for rid, r in self.prs.part.rels.items())
        names = ",".join(str(p.partname) for p in canon)
        return ";".join([ids, rels, names])

    def show(self):
        """Whole observable state.  Pieces are cached and recomputed only when an operation may
        have touched what they depend on (see invalidate); that other parts do not change
        under add_slide / notes_slide is checked byte-for-byte by the oracle."""
        prs = self.prs
        c = self.cache

        def memo(kind, key, f):
            k = (kind, key)
            if k not in c:
                c[k] = f()
            return c[k]

        def slide_text(part):
            # keyed by the object: the entry keeps the part alive, so the id of a deleted slide part (garbage once
            # its relationship is dropped) cannot come back as the id of a new one
            hit = c.get(("s", id(part)))
            if hit is None or hit[0] is not part:
                hit = c[("s", id(part))] = (part, self.show_slide(part))
            return hit[1]

        def entry(e):
            try:
                part = prs.part.related_part(e.rId)
                part.slide
            except Exception as x:  # noqa
                return "?" + exc_name(x)
            return slide_text(part)

        def orphan(k, p):
            if not hasattr(p, "slide"):
                return "%d:?" % k
            return "%d:%s" % (k, slide_text(p))

        slides = "!".join(entry(e) for e in self.sld_ids())
        listed = {e.rId for e in self.sld_ids()}
        canon = self.canon()
        orph = "!".join(orphan(next(i for i, q in enumerate(canon) if q is p), p) for rid, p in self.slide_rels() if rid not in listed)
        lays = "!".join(memo("l", i, lambda: ";".join(self.show_shape(p) for p in l.placeholders)) for i, l in enumerate(self.layouts))
        mas = "!".join(memo("m", i, lambda: ";".join(self.show_shape(p) for p in m.placeholders)) for i, m in enumerate(self.masters))
        nm = self.notes_master_part()
        nms = "-" if nm is None else memo("k", 0, lambda: ";".join(self.show_shape(p) for p in nm.notes_master.placeholders))
        return "|".join([slides, orph, lays, mas, nms, self.show_pkg()])

    def invalidate(self, op):
        toks = op.split(" ")
        c = self.cache
        kinds = set()
        if toks[0] in ("A", "R", "U"):
            return
        if toks[0] == "S":
            c.clear()
            return
        if toks[0] in ("X", "P") or (toks[0] == "E" and toks[1] in ("s", "n")):
            try:
                part = self.prs.slides[int(toks[1] if toks[0] in ("X", "P") else toks[2])].part
                c.pop(("s", id(part)), None)
            except Exception:  # noqa
                pass
            return
        if toks[0] == "N":
            kinds = {"s", "k"}
        elif toks[1] == "l":
            kinds = {"s"}
            c.pop(("l", int(toks[2])), None)
        elif toks[1] == "m":
            kinds = {"s", "l", "m"}
        elif toks[1] == "k":
            kinds = {"s", "k"}
        for k in [k for k in c if k[0] in kinds]:
            del c[k]

    def targets_opaque(self, op):
        toks = op.split(" ")
        if toks[0] in ("N", "X", "P"):
            i = int(toks[1])
        elif toks[0] == "E" and toks[1] in ("s", "n"):
            i = int(toks[2])
        else:
            return False
        ids = self.sld_ids()
        if i >= len(ids):
            return False
        try:
            part = self.prs.part.related_part(ids[i].rId)
            part.slide
        except Exception:  # noqa
            return False
        return not self.is_new(part)

    # ---- operations
    def target(self, k, a, b):
        prs = self.prs
        if k == "s":
            return list(prs.slides[a].shapes)[b]
        if k == "n":
            sl = prs.slides[a]
            if not sl.has_notes_slide:
                raise IndexError("no notes slide")
            return list(sl.notes_slide.shapes)[b]
        if k == "l":
            return list(self.layouts[a].placeholders)[b]
        if k == "m":
            return list(self.masters[a].placeholders)[b]
        if k == "k":
            return list(prs.notes_master.placeholders)[b]
        raise ValueError(k)

    def apply(self, op, oracle=None):
        """Run one operation; returns 'ok:' or 'err:<class>'."""
        toks = op.split(" ")
        prs = self.prs
        try:
            if toks[0] == "A":
                l = int(toks[1])
                layout = self.layouts[l]
                before = oracle.snapshot(self) if oracle else None
                known = [p for _, p in self.slide_rels()]
                try:
                    slide = prs.slides.add_slide(layout)
                except Exception as e:  # noqa
                    self.mark_new_parts(known)
                    if oracle:
                        oracle.add_failed(self, l, layout, e, op)
                    raise
                slide.part._element.cSld.set("name", MARK)
                self.mark_new_parts(known)
                if oracle:
                    oracle.added(self, l, layout, slide, before, op)
            elif toks[0] in ("R", "U"):
                i = int(toks[1])
                lst = prs.part._element.sldIdLst
                sldId = lst.sldId_lst[i]           # IndexError when there is no such slide
                before = oracle.snapshot(self) if oracle else None
                if toks[0] == "R":
                    prs.part.drop_rel(sldId.rId)
                lst.remove(sldId)
                if oracle:
                    oracle.removed(self, i, toks[0] == "R", before, op)
            elif toks[0] == "S":
                state = oracle.listing_state(self) if oracle else None
                buf = io.BytesIO()
                with warnings.catch_warnings():
                    warnings.simplefilter("ignore")
                    prs.save(buf)
                self.prs = self.Presentation(io.BytesIO(buf.getvalue()))
                prs = self.prs
                self.bind()
                self.cache.clear()
                len(list(prs.slides))
                if oracle:
                    oracle.reopened(self, state, buf.getvalue(), op)
                    oracle.first_access(self, op)
            elif toks[0] == "N":
                sl = prs.slides[int(toks[1])]
                had = sl.has_notes_slide
                before = oracle.snapshot(self) if oracle else None
                ns = sl.notes_slide
                if oracle and not had:
                    oracle.notes_added(self, sl, ns, before, op)
            elif toks[0] == "X":
                s, x, y, cx, cy = [int(t) for t in toks[1:6]]
                prs.slides[s].shapes.add_textbox(x, y, cx, cy)
            elif toks[0] == "P":
                sl = prs.slides[int(toks[1])]
                lph = list(self.layouts[int(toks[2])].placeholders)[int(toks[3])]
                before = oracle.names_of(sl) if oracle else None
                sl.shapes.clone_placeholder(lph)
                if oracle:
                    oracle.cloned(self, sl, lph, before, op)
            elif toks[0] == "E":
                k, a, b = toks[1], int(toks[2]), int(toks[3])
                sh = self.target(k, a, b)
                e = toks[4]
                if e == "S":
                    attr, v = ATTRS[int(toks[5])], int(toks[6])
                    before = [self.geom(sh, a_) for a_ in ATTRS] if oracle else None
                    try:
                        setattr(sh, attr, v)
                    except Exception:  # noqa
                        if oracle:
                            oracle.after_refused_set(self, sh, attr, v, before, [self.geom(sh, a_) for a_ in ATTRS], op)
                        raise
                    if oracle:
                        oracle.after_set(self, sh, k, attr, v, before, [self.geom(sh, a_) for a_ in ATTRS], op)
                elif e == "C":
                    spPr = sh._element.find(P + "spPr")
                    x = None if spPr is None else spPr.find(A + "xfrm")
                    if x is not None:
                        spPr.remove(x)
                elif e == "R":
                    sh.name = "".join(chr(int(t)) for t in toks[5:])
                elif e == "D":
                    el = sh._element
                    el.getparent().remove(el)
                else:
                    raise ValueError(e)
            else:
                raise ValueError(op)
        except Exception as e:  # noqa
            return "err:" + exc_name(e)
        return "ok:"


def run_impl(case, oracle=None):
    d = Deck(case)
    if not d.modelable():
        return None, None
    fields = d.model_fields()
    if d.load_error:
        return fields + list(case["ops"]), d.load_error
    if oracle:
        oracle.first_access(d, "<load>")
    outs = ["ok:@" + d.show()]
    done = []
    for op in case["ops"]:
        if d.targets_opaque(op):
            # the position designates a slide the deck brought along (its shapes are outside the model; the generator
            # aims at new slides, but a name collision with an unlisted part can put other content behind a position
            # at re-opening): the history ends here, model and implementation both run the operations before it
            if oracle:
                oracle.classes.add("history-cut-at-an-operation-on-an-opaque-slide")
            break
        r = d.apply(op, oracle)
        d.invalidate(op)
        outs.append(r + "@" + d.show())
        done.append(op)
    if oracle:
        oracle.finish(d)
    return fields + done, "#".join(outs)


# ----------------------------------------------------------------------------- oracle
BODY_LIKE = {"body", "obj", "chart", "tbl", "clipArt", "dgm", "media", "pic", "subTitle"}


def master_type_for(t):
    """Which master placeholder a layout placeholder of XML type t inherits from (ECMA-376 practice:
    content-like placeholders follow the master body, the centred title follows the title,
    every other type follows the master placeholder of its own type)."""
    if t in BODY_LIKE:
        return "body"
    if t == "ctrTitle":
        return "title"
    return t


class Oracle:
    """The property statement, evaluated on raw XML and public API results."""

    LATENT = ("dt", "ftr", "sldNum")
    NOTES = ("sldImg", "body", "sldNum")

    def __init__(self, case):
        self.case = case
        self.classes = set()
        self.found = []      # (sig, what, record): reported by the parent process in case order

    def bad(self, sig, what, op, extra=None):
        rec = {"entry_point": sig.split(":")[0], "input": self.case, "failing_op": op}
        if extra:
            rec.update(extra)
        if not any(f[0] == sig for f in self.found):
            self.found.append((sig, what, rec))

    @staticmethod
    def ser(part):
        from lxml import etree
        rels = sorted((rid, r.reltype, r.target_ref, r.is_external) for rid, r in part.rels.items())
        return etree.tostring(part._element), rels

    @staticmethod
    def listing(d):
        """The part every p:sldId designates (None when it does not resolve), with the ids."""
        pp = d.prs.part
        parts = []
        for e in d.sld_ids():
            try:
                parts.append(pp.related_part(e.rId))
            except Exception:  # noqa
                parts.append(None)
        return parts, [int(e.get("id")) for e in d.sld_ids()], [e.rId for e in d.sld_ids()]

    def snapshot(self, d):
        listed, ids, rids = self.listing(d)
        uniq = []
        for p in listed:
            if p is not None and not any(p is q for q in uniq):
                uniq.append(p)
        parts = uniq + [l.part for l in d.layouts] + [m.part for m in d.masters]
        rels = [(rid, r.reltype, r.is_external, r.target_ref if r.is_external else r.target_part) for rid, r in d.prs.part.rels.items()]
        names = [None if p is None else str(p.partname) for p in listed]
        if names != ["/ppt/slides/slide%d.xml" % (k + 1) for k in range(len(names))]:
            self.classes.add("operation-on-slide-list-with-gap-or-disorder-in-part-names")
        return {"parts": [(p, self.ser(p)) for p in parts], "listed": listed, "ids": ids, "rids": rids, "rels": rels}

    def frame(self, d, before, op, what, allow=()):
        for p, s in before["parts"]:
            if any(p is a for a in allow):
                continue
            if self.ser(p) != s:
                self.bad("%s:frame" % what, "%s changed another part (%s)" % (what, p.partname), op, {"part": str(p.partname)})

    def deck_level(self, d, before, slide, op):
        """The slide-list part of the statement, on the objects themselves: the returned slide is the last entry,
        the list grew by one, every earlier position designates the same part object, the new part is a new
        object, slide ids and r:ids are distinct, and the presentation part gained exactly one relationship
        (to the new part) and lost none."""
        listed, ids, rids = self.listing(d)
        n0 = len(before["listed"])
        if len(listed) != n0 + 1 or len(d.prs.slides) != n0 + 1:
            self.bad("add_slide:not-last", "len(prs.slides) went from %d to %d on add_slide" % (n0, len(listed)), op)
            return
        if listed[-1] is not slide.part or d.prs.slides[n0].part is not slide.part:
            last = listed[-1]
            self.bad("add_slide:not-last", "the slide add_slide returned (%s) is not the last of prs.slides; the last p:sldId (id %d, %s) designates %s"
                     % (slide.part.partname, ids[-1], rids[-1], "nothing" if last is None else "the part %s that %s" % (
                         last.partname, "was already listed at position %d" % next(i for i, q in enumerate(before["listed"]) if q is last)
                         if any(q is last for q in before["listed"]) else "is another object")), op)
        for i, (a, b) in enumerate(zip(before["listed"], listed)):
            if a is not b:
                self.bad("add_slide:displaced", "position %d of prs.slides designates another part after add_slide" % i, op)
        if ids[:n0] != before["ids"] or rids[:n0] != before["rids"]:
            self.bad("add_slide:displaced", "the earlier p:sldId entries changed on add_slide", op)
        if any(q is slide.part for q in before["listed"]) or any((not x) and t is slide.part for _, _, x, t in before["rels"]):
            self.bad("add_slide:not-new", "add_slide returned a slide part the presentation was already related to", op)
        if len(set(ids)) != len(ids):
            self.bad("add_slide:slide-id", "slide ids are not distinct after add_slide: %r" % (ids,), op)
        if len(set(rids)) != len(rids):
            self.bad("add_slide:slide-rid", "two p:sldId entries carry the same r:id after add_slide: %r" % (rids,), op)
        try:
            if slide.slide_id != ids[-1] or d.prs.slides.index(slide) != n0 or d.prs.slides.get(ids[-1]) is not slide:
                self.bad("add_slide:not-last", "slide_id / Slides.index / Slides.get do not find the new slide at the last entry", op)
        except Exception as e:  # noqa
            self.bad("add_slide:not-last", "slide_id / Slides.index / Slides.get raise %r for the new slide" % (e,), op)
        self.rels_frame(d, before, op, "add_slide", gone=(), new_target=slide.part)

    def rels_frame(self, d, before, op, what, gone, new_target):
        now = {rid: (r.reltype, r.is_external, r.target_ref if r.is_external else r.target_part) for rid, r in d.prs.part.rels.items()}
        for rid, t, x, tgt in before["rels"]:
            if rid in gone:
                if rid in now:
                    self.bad("%s:rels" % what, "relationship %s of the presentation part is still there" % rid, op)
                continue
            cur = now.pop(rid, None)
            if cur is None or cur[0] != t or cur[1] != x or (cur[2] != tgt if x else cur[2] is not tgt):
                self.bad("%s:rels" % what, "relationship %s of the presentation part was dropped or retargeted by %s" % (rid, what), op)
        for rid in gone:
            now.pop(rid, None)
        extra = sorted(now)
        if new_target is None:
            if extra:
                self.bad("%s:rels" % what, "%s added relationships %r to the presentation part" % (what, extra), op)
        elif len(extra) != 1 or now[extra[0]][0] != d.RT.SLIDE or now[extra[0]][2] is not new_target:
            self.bad("%s:rels" % what, "%s did not add exactly one slide relationship to the new part (new: %r)" % (what, extra), op)

    def removed(self, d, i, dropped, before, op):
        """The deletion recipe (harness code around XmlPart.drop_rel): the other entries keep designating the same
        parts with the same content."""
        listed, ids, rids = self.listing(d)
        want = before["listed"][:i] + before["listed"][i + 1:]
        if len(listed) != len(want) or any(a is not b for a, b in zip(want, listed)) or ids != before["ids"][:i] + before["ids"][i + 1:]:
            self.bad("remove:listing", "after deleting slide %d the remaining entries do not designate the same parts" % i, op)
        rid = before["rids"][i]
        shared = before["rids"].count(rid) > 1
        self.rels_frame(d, before, op, "remove", gone=(rid,) if (dropped and not shared) else (), new_target=None)
        self.frame(d, before, op, "remove")

    @staticmethod
    def slide_summary(d, part):
        sl = part.slide
        tree = sl._element.cSld.spTree
        shapes = []
        for e in shape_children(tree):
            c = raw_cnvpr(e)
            ph = raw_ph(e)
            shapes.append((c.get("id"), c.get("name"), None if ph is None else raw_key(ph), raw_xfrm(e) if e.tag in (P + "sp", P + "pic") else None))
        notes = None
        if sl.has_notes_slide:
            notes = [(raw_cnvpr(e).get("name"), None if raw_ph(e) is None else raw_key(raw_ph(e))) for e in shape_children(sl.notes_slide._element.cSld.spTree)]
        return (d.layout_index(part.slide_layout.part), tuple(shapes), None if notes is None else tuple(notes))

    def listing_state(self, d):
        listed, ids, rids = self.listing(d)
        unlisted = [str(p.partname) for rid, p in d.slide_rels() if rid not in rids]
        return {"ids": ids, "slides": [None if p is None else self.slide_summary(d, p) for p in listed],
                "names": [None if p is None else str(p.partname) for p in listed], "unlisted": unlisted,
                "twice": len({id(p) for p in listed}) != len(listed)}

    def first_access(self, d, op):
        """Right after the first access of prs.slides (loading, re-opening): rename_slide_parts has named the listed
        slide parts slide1..N.  A slide part that is related to the presentation part without being listed keeps its
        name; when that name is among 1..N two parts of the package now carry it (the root cause recorded for C06 as
        unlisted-slide-partname-collision: the rename does not look at the other parts)."""
        st = self.listing_state(d)
        hit = sorted(set(st["unlisted"]) & set(n for n in st["names"] if n is not None))
        if hit:
            self.bad("unlisted-slide-partname-collision",
                     "after the first access of prs.slides the listed slide parts are named %r and the related but unlisted slide part(s) %r keep their names: %s is the name of two parts, the next save writes two members of that name and one of the slides is lost on re-open"
                     % (st["names"], st["unlisted"], ", ".join(hit)), op, {"colliding": hit})
        return bool(hit)

    def reopened(self, d, state, blob, op):
        """Saving and re-opening keeps the slide list: same number of slides, same ids, each with the same layout,
        shapes (id, name, placeholder key, own position and size) and notes placeholders; no part listed twice
        unless it was before."""
        now = self.listing_state(d)
        names = zipfile.ZipFile(io.BytesIO(blob)).namelist()
        dups = sorted({n for n in names if names.count(n) > 1})
        if now["ids"] != state["ids"] or now["slides"] != state["slides"] or (now["twice"] and not state["twice"]):
            lost = [i for i, (a, b) in enumerate(zip(state["slides"], now["slides"])) if a != b]
            if dups and all(("/" + n) in state["unlisted"] for n in dups if not n.startswith("ppt/slides/_rels/")):
                # every doubled name is the name of a related, unlisted slide part: the collision reported by first_access
                self.bad("unlisted-slide-partname-collision",
                         "the saved package holds two members named %s, the name of a listed slide part and of a related but unlisted one (%r); after re-opening slide(s) %r of %d differ from what was saved"
                         % (", ".join(dups[:2]), state["unlisted"], lost, len(state["slides"])), op, {"duplicate_members": dups})
            elif dups:
                self.bad("save-reopen:duplicate-slide-partname",
                         "the saved package holds two members named %s: at save time the listed slide parts were named %r; after re-opening slide(s) %r of %d differ from what was saved%s"
                         % (", ".join(dups[:2]), state["names"], lost, len(state["slides"]),
                            " and one part is listed twice" if now["twice"] and not state["twice"] else ""), op, {"duplicate_members": dups})
            else:
                self.bad("save-reopen:slides-differ", "after save and re-open the slide list differs: ids %r -> %r, slides differing at %r" % (state["ids"], now["ids"], lost), op)
        elif dups and any(n.startswith("ppt/slides/") for n in dups):
            self.classes.add("duplicate-member-unlisted")

    @staticmethod
    def expected_geom(layout_el, master_tree, dup_first=True):
        """Expected (left, top, width, height) given the layout counterpart element."""
        off, ext = raw_xfrm(layout_el)
        t = raw_key(raw_ph(layout_el))[0]
        mt = master_type_for(t)
        moff = mext = None
        for e in ph_sps(master_tree)[0]:
            if raw_key(raw_ph(e))[0] == mt:
                moff, mext = raw_xfrm(e)
                break
        o = off if off is not None else moff
        x = ext if ext is not None else mext
        return (None if o is None else o[0], None if o is None else o[1],
                None if x is None else x[0], None if x is None else x[1])

    def added(self, d, l, layout, slide, before, op):
        prs = d.prs
        # last, related
        self.deck_level(d, before, slide, op)
        lrels = [r for r in slide.part.rels.values() if r.reltype == d.RT.SLIDE_LAYOUT]
        if len(lrels) != 1 or lrels[0].target_part is not layout.part or slide.slide_layout.part is not layout.part:
            self.bad("add_slide:layout-rel", "new slide is not related to the requested layout", op)
        self.frame(d, before, op, "add_slide")
        # mirror
        lay_tree = layout._element.cSld.spTree
        lphs = [e for e in ph_sps(lay_tree)[0]]
        want = [e for e in lphs if raw_key(raw_ph(e))[0] not in self.LATENT]
        stree = slide._element.cSld.spTree
        got = shape_children(stree)
        gkeys = [raw_key(raw_ph(e)) if raw_ph(e) is not None else None for e in got]
        wkeys = [raw_key(raw_ph(e)) for e in want]
        if gkeys != wkeys:
            self.bad("add_slide:mirror", "placeholders of the new slide %r differ from the non-latent ones of the layout %r" % (gkeys, wkeys), op)
            return
        names = [raw_cnvpr(e).get("name") for e in got]
        if len(set(names)) != len(names):
            self.bad("add_slide:names", "placeholder names on the new slide are not unique: %r" % (names,), op)
        # slide.placeholders: every placeholder once, idx non-decreasing, ties in tree order
        view = [p.shape_id for p in slide.placeholders]
        ids = [int(raw_cnvpr(e).get("id")) for e in got]
        stable = [i for _, _, i in sorted((k[1], n, i) for n, (k, i) in enumerate(zip(gkeys, ids)))]
        if view != stable:
            self.bad("add_slide:placeholders-view", "slide.placeholders %r is not the idx-sorted shape tree %r" % (view, stable), op)
        # geometry
        idxs = [raw_key(raw_ph(e))[1] for e in lphs]
        mtree = layout.slide_master._element.cSld.spTree
        shapes = list(slide.shapes)
        for pos, (el, sh) in enumerate(zip(want, shapes)):
            k = raw_key(raw_ph(el))
            if idxs.count(k[1]) > 1:
                self.classes.add("dup-idx")
                counterpart = next(e for e in lphs if raw_key(raw_ph(e))[1] == k[1])
            else:
                counterpart = el
            exp = self.expected_geom(counterpart, mtree)
            try:
                gotg = tuple(None if v is None else int(v) for v in (sh.left, sh.top, sh.width, sh.height))
            except Exception as e:  # noqa
                t = getattr(e.args[0], "xml_value", None) if e.args else None
                self.bad("geometry-raises-%s:%s" % (exc_name(e), t or raw_key(raw_ph(counterpart))[0]),
                         "left/top/width/height of the new placeholder %r (idx %d) raises %r; its layout counterpart is <p:ph type=%r> without own a:off or a:ext"
                         % (sh.name, k[1], e, raw_key(raw_ph(counterpart))[0]), op, {"shape_position": pos})
                continue
            if gotg != exp:
                self.bad("add_slide:geometry", "new placeholder %r (idx %d) reports %r, its layout counterpart gives %r" % (sh.name, k[1], gotg, exp), op,
                         {"shape_position": pos})

    def add_failed(self, d, l, layout, e, op):
        t = getattr(e.args[0], "xml_value", None) if e.args else None
        keys = [raw_key(raw_ph(x))[0] for x in ph_sps(layout._element.cSld.spTree)[0]]
        listed = len(d.prs.slides)
        listed_rids = {e.rId for e in d.sld_ids()}
        orphans = [str(p.partname) for rid, p in d.slide_rels() if rid not in listed_rids]
        self.bad("add_slide-raises-%s:%s" % (exc_name(e), t),
                 "prs.slides.add_slide(layout) raises %r for a layout whose placeholder types are %r; afterwards len(prs.slides) = %d and the presentation part is still related to the unlisted part(s) %r"
                 % (e, keys, listed, orphans), op)

    def notes_added(self, d, sl, ns, before, op):
        prs = d.prs
        nmp = d.notes_master_part()
        if nmp is None:
            self.bad("notes_slide:no-master", "no notes master after notes_slide", op)
            return
        rel_types = sorted(r.reltype for r in ns.part.rels.values())
        if rel_types != sorted([d.RT.NOTES_MASTER, d.RT.SLIDE]) or ns.part.part_related_by(d.RT.SLIDE) is not sl.part \
                or ns.part.part_related_by(d.RT.NOTES_MASTER) is not nmp or sl.notes_slide is not ns:
            self.bad("notes_slide:rels", "notes slide is not related to its slide and the notes master", op)
        self.frame(d, before, op, "notes_slide", allow=[sl.part])
        mtree = nmp._element.cSld.spTree
        mphs = ph_sps(mtree)[0]
        want = [e for e in mphs if raw_key(raw_ph(e))[0] in self.NOTES]
        got = shape_children(ns._element.cSld.spTree)
        gkeys = [raw_key(raw_ph(e)) if raw_ph(e) is not None else None for e in got]
        wkeys = [raw_key(raw_ph(e)) for e in want]
        if gkeys != wkeys:
            self.bad("notes_slide:mirror", "placeholders of the notes slide %r differ from slide-image/body/slide-number of the notes master %r" % (gkeys, wkeys), op)
            return
        names = [raw_cnvpr(e).get("name") for e in got]
        if len(set(names)) != len(names):
            self.bad("notes_slide:names", "placeholder names on the notes slide are not unique: %r" % (names,), op)
        types = [raw_key(raw_ph(e))[0] for e in mphs]
        for el, sh in zip(want, list(ns.shapes)):
            t = raw_key(raw_ph(el))[0]
            if types.count(t) > 1:
                self.classes.add("dup-type-notes")
            first = next(e for e in mphs if raw_key(raw_ph(e))[0] == t)
            off, ext = raw_xfrm(first)
            exp = (None if off is None else off[0], None if off is None else off[1],
                   None if ext is None else ext[0], None if ext is None else ext[1])
            try:
                gotg = tuple(None if v is None else int(v) for v in (sh.left, sh.top, sh.width, sh.height))
            except Exception as e:  # noqa
                self.bad("notes-geometry-raises-%s:%s" % (exc_name(e), t), "geometry of notes placeholder %r raises %r" % (sh.name, e), op)
                continue
            if gotg != exp:
                self.bad("notes_slide:geometry", "notes placeholder %r reports %r, the notes master gives %r" % (sh.name, gotg, exp), op)

    @staticmethod
    def names_of(slide):
        return [raw_cnvpr(e).get("name") for e in shape_children(slide._element.cSld.spTree)]

    def cloned(self, d, slide, lph, before, op):
        """shapes.clone_placeholder on a slide that already has shapes: one placeholder appended with the
        key of the layout placeholder and a name no other shape of the slide carries."""
        got = shape_children(slide._element.cSld.spTree)
        if len(got) != len(before) + 1 or raw_ph(got[-1]) is None or raw_key(raw_ph(got[-1])) != raw_key(raw_ph(lph._element)):
            self.bad("clone_placeholder:mirror", "clone_placeholder did not append one placeholder with the key of its source", op)
            return
        name = raw_cnvpr(got[-1]).get("name")
        if name in before:
            self.bad("clone_placeholder:name", "clone_placeholder named the new placeholder %r, a name already used on the slide (%r)" % (name, before), op)

    def after_set(self, d, sh, kind, attr, v, before, after, op):
        """An accepted assignment overrides the dimension it names and nothing else: the shape reports the
        assigned value, and a placeholder of a slide or of a notes slide keeps reporting, for each of the
        other three, the position / size it reported (its layout counterpart's, the master's, or an earlier
        override).  A dimension for which nothing is inherited (it read None) is not judged."""
        i = ATTRS.index(attr)
        if after[i] != "ok:%d" % v:
            self.bad("set:%s" % attr, "after %s = %d the shape reports %s" % (attr, v, after[i]), op)
        if kind in ("s", "n") and raw_ph(sh._element) is not None:
            for j, (x, y) in enumerate(zip(before, after)):
                if j != i and x.startswith("ok:") and x != "ok:None" and y != x:
                    self.bad("set-displaced:%s" % ATTRS[j],
                             "%s = %d was assigned to placeholder %r; %s was never overridden, yet it read %s before and reads %s now (left/top/width/height before %r, after %r)"
                             % (attr, v, sh.name, ATTRS[j], x, y, before, after), op)

    @staticmethod
    def in_range(j, text):
        """Whether a reported dimension (text form ok:<int>) lies in ST_Coordinate / ST_PositiveCoordinate."""
        return (MINC if j < 2 else 0) <= int(text[3:]) <= MAXC

    def after_refused_set(self, d, sh, attr, v, before, after, op):
        """A refused assignment overrides nothing.  When the VALUE is refused the shape reports what it
        reported before, in all four dimensions.  When the value itself is acceptable and an exception is
        raised all the same, the named dimension may read the assigned value; the other three, where they
        read a value before, must still read it.  Not judged: a shape that already reported a dimension
        outside the schema's range (inherited from a layout or master with e.g. a negative height), the one
        situation in which writing the displaced inherited values can raise."""
        i = ATTRS.index(attr)
        if not self.in_range(i, "ok:%d" % v):
            if before != after:
                self.bad("set-refused:%s" % attr, "%s = %d was refused, yet left/top/width/height changed from %r to %r" % (attr, v, before, after), op)
            return
        valued = [j for j, x in enumerate(before) if x.startswith("ok:") and x != "ok:None"]
        if any(not self.in_range(j, before[j]) for j in valued if j != i):
            self.classes.add("schema-invalid-inherited")
            return
        for j, (x, y) in enumerate(zip(before, after)):
            if x == y or (j == i and y == "ok:%d" % v):
                continue
            if j != i and j not in valued:
                continue
            self.bad("set-raised:%s" % attr, "%s = %d raised, yet %s changed from %s to %s (left/top/width/height before %r, after %r)"
                     % (attr, v, ATTRS[j], x, y, before, after), op)

    def finish(self, d):
        pass


# ----------------------------------------------------------------------------- generation
def rand_geom(rng):
    r = rng.random()
    if r < 0.45:
        return None, None, False
    off = (rng.choice([0, 457200, 914400, -5, 1234567]), rng.choice([0, 274638, 1600200, 99]))
    ext = (rng.choice([8229600, 4038600, 0, 777]), rng.choice([1143000, 4525963, 12]))
    if r < 0.8:
        return off, ext, False
    if r < 0.88:
        return off, None, False
    if r < 0.96:
        return None, ext, False
    return None, None, True     # empty a:xfrm


def gen_ph(rng, sid, types, idx_pool):
    t = rng.choice(types)
    off, ext, empty = rand_geom(rng)
    idx = rng.choice(idx_pool)
    return {"id": sid, "name": rng.choice(["Title 1", "Text Placeholder 2", "Shape %d" % sid, "", "Vertical Title 3", "x"]),
            "type": t, "idx": idx, "orient": rng.choice([None, None, "horz", "vert"]),
            "sz": rng.choice([None, None, "full", "half", "quarter"]), "off": off, "ext": ext, "empty_xfrm": empty,
            "tx": rng.random() < 0.7}


def gen_population(rng, all_types, n, kind):
    if kind == "master":
        types = ["title", "body", "dt", "ftr", "sldNum", "body", "title", rng.choice(all_types)]
        idx_pool = [None, 0, 1, 2, 3, 4]
    elif kind == "nm":
        types = ["hdr", "dt", "sldImg", "body", "ftr", "sldNum", "body", "sldImg", rng.choice(all_types), None]
        idx_pool = [None, 0, 1, 2, 3, 4, 5]
    else:
        # layouts: every type; the slide-image type aborts add_slide, so keep it rare enough
        # for the other behaviours to be exercised as well
        types = [t for t in all_types if t != "sldImg"] * 3 + [None, None, "sldImg"]
        idx_pool = [None, None, 0, 1, 2, 3, 10, 11, 12, 13, 4294967295, rng.randint(0, 40)]
    out = []
    sid = 2
    for _ in range(n):
        if rng.random() < 0.12:
            off, ext, empty = rand_geom(rng)
            out.append({"id": sid, "name": "Plain %d" % sid, "ph": False, "off": off, "ext": ext, "empty_xfrm": empty, "tx": True})
        else:
            out.append(gen_ph(rng, sid, types, idx_pool))
        sid += rng.choice([1, 1, 1, 3])
    return out


NAME_POOL = ["Title", "Text Placeholder", "Content Placeholder", "Picture Placeholder", "Subtitle", "Chart Placeholder",
             "Table Placeholder", "Header Placeholder", "Vertical Title", "Vertical Text Placeholder", "Notes Placeholder",
             "Slide Image Placeholder", "Slide Number Placeholder", "TextBox", "Media Placeholder", "Vertical Content Placeholder"]


def rand_value(rng, attr, malformed):
    if malformed and rng.random() < 0.5:
        return rng.choice([-1, MAXC + 1, MINC - 1, 2 ** 63, -(2 ** 63)])
    if attr >= 2:
        return rng.choice([0, 1, 914400, 8229600, MAXC])
    return rng.choice([0, -914400, 457200, 1600200, MAXC, MINC])


def deck_sizes(path, pop, prep=None):
    """Shape counts the generator uses to aim operations at shapes that exist (mostly)."""
    from pptx import Presentation

    key = path
    if key not in _SIZES:
        prs = Presentation(io.BytesIO(deck_bytes(path)))
        lays = [l for m in prs.slide_masters for l in m.slide_layouts]
        types = [[raw_key(raw_ph(e))[0] for e in ph_sps(l._element.cSld.spTree)[0]] for l in lays]
        nmp = [r.target_part for r in prs.part.rels.values() if r.reltype.endswith("/notesMaster")]
        nm = [raw_key(raw_ph(e))[0] for e in ph_sps(nmp[0]._element.cSld.spTree)[0]] if nmp else ["hdr", "dt", "sldImg", "body", "ftr", "sldNum"]
        # a slide part related to another slide part is written when the first of them is reached: the write order
        # of the model (order of the presentation part's relationships) does not hold, no save steps on such a deck
        xl = any(r2.reltype.endswith("/slide") and not r2.is_external for r in prs.part.rels.values() if r.reltype.endswith("/slide") and not r.is_external
                 for r2 in r.target_part.rels.values())
        _SIZES[key] = (types, len(ph_sps(prs.slide_masters[0]._element.cSld.spTree)[0]), nm, len(prs.slides), xl)
    types, nmaster, nm, nslides, xl = _SIZES[key]
    types = [list(t) for t in types]
    pop = pop or {}
    ptypes = lambda specs: [(sp.get("type") or "obj") for sp in specs if sp.get("ph", True)]
    if pop.get("layout") is not None:
        types[pop["layout"][0]] = ptypes(pop["layout"][1])
    if pop.get("master") is not None:
        nmaster = len(ptypes(pop["master"]))
    if pop.get("nm") is not None:
        nm = ptypes(pop["nm"])
    return {"types": types, "layout": [len(t) for t in types],
            "clone": [len([x for x in t if x not in Oracle.LATENT]) for t in types],
            "master": nmaster, "notes": len([x for x in nm if x in Oracle.NOTES]), "nm": len(nm),
            "slides": nslides + (len(prep.get("add", [])) - len(prep.get("unlist", [])) if prep else 0), "slides0": nslides,
            "save_ok": not xl}


_SIZES = {}


def gen_ops(rng, sizes, focus, n, malformed=False, deck_ops=0.0, save_ok=True):
    """A history; slide indices refer to positions in prs.slides.  Shape indices are aimed at shapes that
    should exist; one in ten is deliberately off.  deck_ops is the share of steps that delete a slide
    (R: drop_rel + p:sldId, U: the p:sldId only; first / middle / last positions alike, slides the deck
    brought along included) or save and re-open (S)."""
    nlayouts = len(sizes["layout"])
    ops = []
    # one entry per position of prs.slides: None for a slide the deck brought along (opaque), else the
    # estimated shape count and whether it has a notes slide
    pos = [None] * sizes["slides"]

    def pick(k):
        if k <= 0 or rng.random() < 0.1:
            return rng.randrange(k + 2)
        return rng.randrange(k)

    for step in range(n):
        r = rng.random()
        new = [i for i, e in enumerate(pos) if e is not None]
        if pos and rng.random() < deck_ops:
            q = rng.random()
            if q < 0.3 and save_ok:
                ops.append("S")
                continue
            i = rng.choice([0, len(pos) - 1, rng.randrange(len(pos)), rng.randrange(len(pos))])
            if malformed and rng.random() < 0.2:
                i = len(pos) + rng.randrange(2)
            ops.append("%s %d" % ("R" if q < 0.85 else "U", i))
            if i < len(pos):
                del pos[i]
            if rng.random() < 0.6:
                l = focus if rng.random() < 0.6 else rng.randrange(nlayouts)
                ops.append("A %d" % l)
                pos.append({"n": sizes["clone"][l], "notes": False})
            continue
        if step == 0 or r < 0.3 or not new:
            l = focus if rng.random() < 0.8 else rng.randrange(nlayouts)
            if malformed and rng.random() < 0.15:
                l = nlayouts + rng.randrange(3)
            ops.append("A %d" % l)
            if l < nlayouts:
                pos.append({"n": sizes["clone"][l], "notes": False})
            continue
        s = rng.choice(new)
        e = pos[s]
        tgt = s
        if malformed and rng.random() < 0.15:
            tgt = len(pos) + rng.randrange(3)
        b = pick(e["n"])
        if r < 0.42:
            a = rng.randrange(4)
            ops.append("E s %d %d S %d %d" % (tgt, b, a, rand_value(rng, a, malformed)))
        elif r < 0.52:
            name = "%s %d" % (rng.choice(NAME_POOL), rng.randint(1, 9))
            ops.append("E s %d %d R %s" % (tgt, b, " ".join(str(ord(c)) for c in name)))
        elif r < 0.58:
            ops.append("E s %d %d D" % (tgt, b))
            if tgt == s and b < e["n"]:
                e["n"] -= 1
        elif r < 0.61:
            ops.append("X %d %d %d %d %d" % (tgt, 914400, 914400, 1828800, 457200))
            if tgt == s:
                e["n"] += 1
        elif r < 0.68:
            lsrc = focus if rng.random() < 0.7 else rng.randrange(nlayouts)
            i = pick(sizes["layout"][lsrc])
            if rng.random() < 0.6 and i < len(sizes["types"][lsrc]) and e["n"] > 0:
                # aim a collision: give an existing shape the name the clone would get by default
                base = meta()["basename_slide"].get(sizes["types"][lsrc][i])
                if base:
                    if rng.random() < 0.3:
                        base = meta()["vertical_prefix"] + base
                    for k in range(rng.choice([1, 1, 2, 3])):
                        if k < e["n"]:
                            ops.append("E s %d %d R %s" % (tgt, k, " ".join(str(ord(c)) for c in "%s %d" % (base, e["n"] + 1 + k + rng.choice([0, 0, 0, 1])))))
            ops.append("P %d %d %d" % (tgt, lsrc, i))
            if tgt == s:
                e["n"] += 1
        elif r < 0.74:
            a = rng.randrange(4)
            ops.append("E l %d %d S %d %d" % (focus, pick(sizes["layout"][focus]), a, rand_value(rng, a, malformed)))
        elif r < 0.77:
            ops.append("E l %d %d %s" % (focus, pick(sizes["layout"][focus]), rng.choice(["C", "C", "C", "D"])))
        elif r < 0.82:
            a = rng.randrange(4)
            ops.append("E m 0 %d %s" % (pick(sizes["master"]), rng.choice(["C", "S %d %d" % (a, rand_value(rng, a, malformed)), "S %d %d" % (a, rand_value(rng, a, malformed)), "D"])))
        elif r < 0.9:
            ops.append("N %d" % tgt)
            if tgt == s:
                e["notes"] = True
        elif r < 0.95:
            a = rng.randrange(4)
            noted = [i for i in new if pos[i]["notes"]]
            if not noted:
                ops.append("N %d" % s)
                e["notes"] = True
            else:
                ops.append("E n %d %d %s" % (rng.choice(noted), pick(sizes["notes"]), rng.choice(
                    ["S %d %d" % (a, rand_value(rng, a, malformed)), "S %d %d" % (a, rand_value(rng, a, malformed)), "C", "D",
                     "R " + " ".join(str(ord(c)) for c in "Notes Placeholder 2")])))
        else:
            a = rng.randrange(4)
            ops.append("E k 0 %d %s" % (pick(sizes["nm"]), rng.choice(["S %d %d" % (a, rand_value(rng, a, malformed)), "C", "D"])))
    return ops


def gen_prep(rng, nlayouts, n0):
    """An irregular start deck: extra slides, part names out of order and with gaps, unlisted related slides."""
    add = [rng.randrange(nlayouts) for _ in range(rng.randint(0 if n0 >= 2 else 2, 4))]
    n = n0 + len(add)
    pool = list(range(1, n + 1 + rng.choice([0, 2, 5])))
    rng.shuffle(pool)
    prep = {"add": add, "names": pool[:n]}
    if n and rng.random() < 0.4:
        prep["unlist"] = sorted(rng.sample(range(n), rng.choice([1, 1, 2]) if n > 1 else 1))
    return prep


def corpus_case(path, rng):
    """Every layout of the deck: add a slide from each, touch some, add again, take notes."""
    from pptx import Presentation

    prs = Presentation(io.BytesIO(deck_bytes(path)))
    layouts = [l for m in prs.slide_masters for l in m.slide_layouts]
    n0 = len(prs.slides)
    ops = []
    pos = n0
    for l in range(len(layouts)):
        ops.append("A %d" % l)
        s = pos
        pos += 1
        r = rng.random()
        if r < 0.5:
            a = rng.randrange(4)
            ops.append("E s %d %d S %d %d" % (s, rng.randrange(3), a, rand_value(rng, a, False)))
        if r < 0.25:
            ops.append("E l %d %d %s" % (l, rng.randrange(3), rng.choice(["C", "S 0 123456"])))
            ops.append("A %d" % l)
            pos += 1
        if rng.random() < 0.3:
            ops.append("N %d" % s)
    if pos > n0:
        ops.append("N %d" % n0)
        ops.append("E n %d 1 S 3 42" % n0)
    return {"deck": path, "ops": ops}


def gen_cases(tier, rng):
    m = meta()
    all_types = sorted(m["xml2val"])
    cases = []
    for p in corpus_files():
        cases.append(("corpus", corpus_case(p, rng)))
    # directed: every type alone and in pairs with/without geometry, vertical, sizes, missing idx
    sid = 2
    for t in all_types + [None]:
        for variant in range(4):
            specs = [{"id": 2, "name": "a", "type": "title", "idx": None, "off": (1, 2), "ext": (3, 4), "tx": True},
                     {"id": 3, "name": "b", "type": t, "idx": [None, 1, 7, 1][variant], "orient": [None, "vert", "horz", "vert"][variant],
                      "sz": [None, "half", "quarter", "full"][variant], "off": [None, (5, 6), None, (5, 6)][variant],
                      "ext": [None, (7, 8), (7, 8), None][variant], "tx": True},
                     {"id": 4, "name": "c", "type": t, "idx": [None, 2, 7, 3][variant], "orient": "vert" if variant == 2 else None, "tx": False}]
            cases.append(("directed", {"deck": "default", "pop": {"layout": [6, specs]},
                                       "ops": ["A 6", "A 6", "E s 0 1 S 0 77", "E l 6 1 S 2 555", "A 6", "N 0", "A 1"]}))
    # directed naming histories: delete / rename so that the next id's default name is taken
    def nm(txt):
        return " ".join(str(ord(ch)) for ch in txt)
    for lay, ren in ((1, "Title 3"), (1, "Content Placeholder 3"), (3, "Title 5"), (0, "Subtitle 3"), (1, "Date Placeholder 3")):
        cases.append(("directed", {"deck": "default", "ops": [
            "A %d" % lay, "E s 0 0 R " + nm(ren), "P 0 %d 0" % lay, "P 0 %d 1" % lay, "E s 0 1 D", "P 0 %d 2" % lay,
            "E s 0 0 R " + nm("Title 4"), "E s 0 2 R " + nm("Title 5"), "P 0 %d 0" % lay, "X 0 1 2 3 4", "P 0 1 0", "P 0 %d 1" % lay]}))
    # directed assignment histories: the first position or size given to an inheriting placeholder
    # (slide, layout, notes slide) must leave its other three dimensions reading as before; refused values
    # before and after; inherited values that are absent (None) for one pair or for everything; master and
    # notes-master placeholders (plain setter); layouts / masters carrying a schema-invalid negative size
    def ph_spec(sid, t, idx=None, off=None, ext=None):
        return {"id": sid, "name": "p%d" % sid, "type": t, "idx": idx, "off": off, "ext": ext, "tx": True}
    cases.append(("directed", {"deck": "default", "pop": {"layout": [6, [
        ph_spec(2, "title"), ph_spec(3, "body", 1), ph_spec(4, "pic", 2, off=(5, 6)), ph_spec(5, "obj", 3, ext=(7, 8))]]},
        "ops": ["A 6", "E s 0 0 S 0 5", "E s 0 0 S 3 9", "E s 0 1 S 2 -1", "E s 0 1 S 2 5", "E s 0 2 S 3 11", "E s 0 3 S 1 -4",
                "E l 6 1 S 1 7", "E l 6 2 S 2 3", "A 6", "E s 1 1 S 2 100", "N 0", "E n 0 0 S 0 5", "E n 0 1 S 3 7", "E n 0 2 S 1 8"]}))
    cases.append(("directed", {"deck": "default", "pop": {
        "master": [ph_spec(2, "title", off=(10, 20)), ph_spec(3, "body", 1, ext=(30, 40))],
        "layout": [6, [ph_spec(2, "title"), ph_spec(3, "body", 1), ph_spec(4, "dt", 10)]]},
        "ops": ["A 6", "E s 0 0 S 3 9", "E s 0 1 S 0 3", "E l 6 0 S 1 7", "E l 6 2 S 0 1", "A 6", "E s 1 0 S 0 3", "E s 1 1 S 3 2",
                "E m 0 0 S 2 6", "E m 0 1 S 1 -5", "A 6"]}))
    cases.append(("directed", {"deck": "default", "pop": {
        "master": [ph_spec(2, "title", off=(10, 20), ext=(30, 40)), ph_spec(3, "body", 1, off=(3, 4), ext=(8, -9))],
        "layout": [6, [ph_spec(2, "title", off=(1, 2), ext=(-5, 7)), ph_spec(3, "body", 1)]]},
        "ops": ["A 6", "E s 0 0 S 0 9", "E s 0 0 S 2 4", "E s 0 0 S 0 8", "E s 0 1 S 0 1", "E s 0 1 S 3 6", "E l 6 1 S 1 2", "A 6"]}))
    cases.append(("directed", {"deck": "default", "pop": {
        "nm": [ph_spec(2, "sldImg", 2, off=(1, 2)), ph_spec(3, "body", 3, ext=(3, 4)), ph_spec(4, "sldNum", 5)]},
        "ops": ["A 0", "N 0", "E n 0 0 S 2 5", "E n 0 1 S 0 6", "E n 0 2 S 3 7", "E n 0 2 S 0 -27273042329601", "E k 0 0 S 3 9", "E k 0 1 S 0 2", "A 0", "N 1"]}))
    # directed slide-list histories: delete the first / a middle / the last slide (relationship dropped, or only
    # the p:sldId removed), add again, with and without saving and re-opening in between and at the end
    for where in (0, 1, 2):
        for rm in ("R", "U"):
            for tail in ([], ["S"], ["S", "A 1", "E s 3 0 S 0 7"]):
                cases.append(("slide-list", {"deck": "default", "ops": ["A 0", "A 1", "A 5", "E s 1 0 S 1 9", "%s %d" % (rm, where), "A 3", "E s 2 1 S 2 77",
                                                                   "N 2", "A 1"] + tail}))
    cases.append(("slide-list", {"deck": "default", "ops": ["A 0", "S", "A 1", "N 1", "S", "A 5", "R 1", "S", "A 2", "R 2", "R 0", "A 0", "A 0"]}))
    cases.append(("slide-list", {"deck": "default", "ops": ["A 0", "A 1", "R 0", "R 0", "A 5", "R 0", "R 0", "U 0", "A 1", "S", "A 1"]}))
    cases.append(("slide-list", {"deck": "default", "prep": {"add": [0, 1, 5], "names": [3, 1, 7]}, "ops": ["A 0", "R 1", "A 1", "N 2", "S", "A 6"]}))
    cases.append(("slide-list", {"deck": "default", "prep": {"add": [0, 1, 5, 6], "names": [9, 2, 4, 3], "unlist": [3]}, "ops": ["A 0", "A 1", "R 0", "A 1"]}))
    n_gen = 500 if tier == "quick" else 5000
    for i in range(n_gen):
        pop = {}
        li = rng.randrange(11)
        pop["layout"] = [li, gen_population(rng, all_types, rng.randint(0, 9), "layout")]
        if rng.random() < 0.6:
            pop["master"] = gen_population(rng, all_types, rng.randint(0, 6), "master")
        if rng.random() < 0.5:
            pop["nm"] = gen_population(rng, all_types, rng.randint(0, 8), "nm")
        malformed = i % 6 == 5
        cases.append(("malformed" if malformed else "generated",
                      {"deck": "default", "pop": pop, "ops": gen_ops(rng, deck_sizes("default", pop), li, rng.randint(4, 14), malformed,
                                                                    deck_ops=0.12 if i % 3 == 1 else 0.0)}))
    # generated slide-list histories: every corpus deck that has slides and the default template, as they are and
    # as irregular start decks (part names out of order / with gaps, unlisted related slides), a third of the
    # steps deleting, unlisting or saving
    with_slides = [p for p in corpus_files() if deck_sizes(p, None)["slides0"] >= 1]
    n_sl = 160 if tier == "quick" else 1600
    for i in range(n_sl):
        path = "default" if i % 3 == 0 else with_slides[(i // 3 * 7 + i) % len(with_slides)]
        base = deck_sizes(path, None)
        prep = gen_prep(rng, len(base["layout"]), base["slides0"]) if i % 2 == 0 else None
        case = {"deck": path, "ops": None}
        if prep:
            case["prep"] = prep
        sizes = deck_sizes(path, None, prep)
        case["ops"] = gen_ops(rng, sizes, rng.randrange(len(sizes["layout"])), rng.randint(5, 14), malformed=(i % 8 == 7),
                              deck_ops=0.35, save_ok=sizes["save_ok"])
        cases.append(("slide-list", case))
    # histories on corpus decks that bring their own notes master
    with_nm = [p for p in corpus_files() if b"notesMasters/" in deck_bytes(p)]
    for p in with_nm:
        for _ in range(3 if tier == "quick" else 20):
            pop = {"nm": gen_population(rng, all_types, rng.randint(0, 8), "nm")} if rng.random() < 0.7 else {}
            sizes = deck_sizes(p, pop)
            cases.append(("notes-deck", {"deck": p, "pop": pop, "ops": gen_ops(rng, sizes, rng.randrange(len(sizes["layout"])), rng.randint(5, 12))}))
    return cases


def nontrivial(case, out):
    """A case counts when at least one slide was added from a layout with two or more cloneable
    placeholders, or a notes slide was created."""
    first = out.split("#")
    for st in first[1:]:
        if st.startswith("ok:@"):
            slides = st.split("@", 1)[1].split("|")[0].split("!")
            for s in slides:
                parts = s.split(":")
                if len(parts) >= 4 and (parts[1].count(";") >= 1 or parts[3] not in ("-", "")):
                    return True
    return False


# ----------------------------------------------------------------------------- run
_CASES = []


def _work(i):
    """One history on the implementation with its oracle (worker process)."""
    klass, case = _CASES[i]
    orc = Oracle(case)
    try:
        fields, out = run_impl(case, orc)
    except Exception as e:  # noqa
        import traceback
        orc.found.append(("harness-crash", "history %d crashed the harness: %r" % (i, e),
                          {"input": case, "traceback": traceback.format_exc(), "theorem_or_correspondence": "harness"}))
        return None, None, orc.found, []
    return fields, out, orc.found, sorted(orc.classes)


def translate(ck):
    rc, out = _run(["/venv/bin/python", os.path.join(VERIF, "tx", "tx_c13.py")], cwd=VERIF)
    if rc != 0:
        ck.violation("translator", "tx_c13 failed on the current tree: " + out[-600:],
                     {"theorem_or_correspondence": "translator tx_c13 (model regeneration)"}, concrete=False)
        return False
    ck.notes.append(out.strip())
    global _META
    _META = None
    return True


def run(ck, tier, rng):
    if not translate(ck):
        return ck.finish("translator failed", TB, ASSUME)
    ck.build = coq_build("C13", extra_targets=["gen/GenC13.vo"])
    m = meta()
    for u in m["unmodelled"]:
        ck.violation("unmodelled:" + u[:100], "translator met a construct outside the model: " + u,
                     {"theorem_or_correspondence": "C13_no_unmodelled", "construct": u}, concrete=False)
    cases = gen_cases(tier, rng)
    fields_list, impl_out, kept = [], [], []
    skipped = 0
    dup_classes = {}
    global _CASES
    _CASES = cases
    nproc = max(1, min(6 if tier == "quick" else 12, (os.cpu_count() or 2) // 2))
    pool = multiprocessing.get_context("fork").Pool(nproc)
    try:
        results = pool.map(_work, range(len(cases)), chunksize=4)
    finally:
        pool.close()
        pool.join()
    for (klass, case), (fields, out, found, classes) in zip(cases, results):
        for sig, what, rec in found:
            ck.violation(sig, what, rec)
        if fields is None:
            skipped += 1
            ck.dist["outside-model(non-sp placeholder or layout without master relationship)"] = ck.dist.get("outside-model(non-sp placeholder or layout without master relationship)", 0) + 1
            continue
        for c in classes:
            dup_classes[c] = dup_classes.get(c, 0) + 1
        fields_list.append(fields)
        impl_out.append(out)
        kept.append((klass, case))
        ck.count(json.dumps(case, sort_keys=True), nontrivial(case, out), klass)
    for klass, case in kept[:2] + kept[70:72] + kept[-3:]:
        ck.sample({"class": klass, "deck": os.path.basename(case["deck"]), "population": case.get("pop"), "ops": case["ops"][:12]}, limit=8)
    for k, v in dup_classes.items():
        ck.dist["cases-with-" + k] = v
    # which behaviours were reached (measured on the implementation's own outcomes)
    n_ops = sum(len(c["ops"]) for _, c in kept)
    n_err = sum(o.count("#err:") for o in impl_out)
    ck.dist["operations"] = n_ops
    ck.dist["operations-raising"] = n_err
    for e in ("Key", "Index", "Value"):
        ck.dist["operations-raising-" + e] = sum(o.count("#err:%s@" % e) for o in impl_out)
    for k, name in (("R", "delete-slide(drop_rel+sldId)"), ("U", "delete-slide(sldId-only)"), ("S", "save-and-reopen")):
        ck.dist["operations-" + name] = sum(1 for _, c in kept for o in c["ops"] if o.split(" ")[0] == k)
    ck.dist["add_slide-after-a-deletion"] = sum(1 for _, c in kept for i, o in enumerate(c["ops"])
                                                if o[0] == "A" and any(p[0] in "RU" for p in c["ops"][:i]))
    concrete_before = len(ck.violations)
    diffs = 0
    tables = None
    exe = os.path.join(COQ, "extract", "run_c13")
    if ck.build.ok or os.path.exists(exe):
        try:
            model_out = run_model("C13", fields_list + [["tables"]])
        except Exception as e:  # noqa
            model_out = None
            ck.notes.append("model runner unavailable: %r" % e)
        if model_out is not None:
            tables = model_out.pop()
            first = None
            for (klass, case), mo, io_ in zip(kept, model_out, impl_out):
                if mo != io_:
                    diffs += 1
                    if first is None:
                        ms, is_ = mo.split("#"), io_.split("#")
                        k = next((i for i, (x, y) in enumerate(zip(ms, is_)) if x != y), min(len(ms), len(is_)))
                        first = (case, k, ms[k] if k < len(ms) else "<missing>", is_[k] if k < len(is_) else "<missing>")
            if diffs:
                case, k, mo, io_ = first
                ck.notes.append("first diff at step %d: model=%s impl=%s" % (k, mo[:600], io_[:600]))
                ck.violation("correspondence",
                             "model/Placeholder.v and python-pptx disagree on %d of %d histories; first at step %d (0 = after loading) of deck %s: model=%s impl=%s"
                             % (diffs, len(kept), k, os.path.basename(case["deck"]), mo[:300], io_[:300]),
                             {"theorem_or_correspondence": "correspondence Placeholder.v ~ slide.py / shapetree.py / placeholder.py (theorems C13_* are about the model only)",
                              "input": case, "step": k, "model_outcome": mo, "impl_outcome": io_}, concrete=False)
    # the uncovered types of the literal dicts, as the model computes them from gen
    partial = {}
    if tables is not None:
        f = tables.split("|")
        names = ["missing_basename_slide", "missing_basename_notes", "missing_layout_master_map", "latent", "notes_cloneable", "txbody"]
        for n, v in zip(names, f):
            partial[n] = [m["val2xml"].get(int(t), t) for t in v.split(" ") if t]
        for n in names[:3]:
            if sorted(int(t) for t in f[names.index(n)].split(" ") if t) != sorted(m[n]):
                ck.violation("tables", "model and translator disagree on %s" % n, {"theorem_or_correspondence": "C13_partial_maps_exact"}, concrete=False)
    any_concrete = any(v["concrete"] for v in ck.violations)
    ck.broken_build(oracle_found_concrete=any_concrete)
    return ck.finish(
        rule="every layout of each of the %d decks under /repo (one history per deck: add a slide from every layout, edits, repeated additions, notes slides) + %d slide-list histories (delete first / middle / last slide by drop_rel + p:sldId or p:sldId alone, add again, save and re-open in between; generated ones on every corpus deck with slides and on start decks with part names out of order / with gaps / with related unlisted parts; a third of the generated layout histories delete and save as well) + %d directed layouts (each placeholder type x idx/orient/sz/xfrm variants, duplicated) + generated populations of master / one layout / notes master of the default template with histories of 4-14 operations (one in six with out-of-range indices and values) + histories on the decks that carry a notes master; non-trivial = the history created a slide with at least two placeholders or a notes slide with at least one"
             % (len(corpus_files()), ck.dist.get("slide-list", 0), ck.dist.get("directed", 0)),
        trusted_base=TB, assumptions=ASSUME,
        extra={"correspondence_diffs": diffs, "exhaustive": False, "skipped_outside_model": skipped,
               "partial_maps_today": partial, "histories": len(kept)},
    )


def replay(rec):
    case = rec["input"]
    translate_quiet()
    orc = Oracle(case)
    fields, out = run_impl(case, orc)
    if fields is None:
        print("deck is outside the model (non-sp placeholder or layout without master relationship)")
        return 0
    mo = run_model("C13", [fields])[0]
    print("case", json.dumps(case)[:2000])
    ms, is_ = mo.split("#"), out.split("#")
    ops = ["<load>"] + list(case["ops"])
    for i, (a, b) in enumerate(zip(ms, is_)):
        print("step %d %-28s impl=%s model=%s%s" % (i, ops[i][:28], b.split("@")[0], a.split("@")[0], "" if a == b else "   <-- states differ"))
    print("final state, implementation:", is_[-1].split("@", 1)[1][:1500])
    print("final state, model         :", ms[-1].split("@", 1)[1][:1500])
    for sig, what, r in orc.found:
        print("ORACLE [%s] at op %r: %s" % (sig, r.get("failing_op"), what))
    if not orc.found:
        print("oracle: the property holds on this history")
    return 0 if (mo == out and not orc.found) else 1


def translate_quiet():
    _run(["/venv/bin/python", os.path.join(VERIF, "tx", "tx_c13.py")], cwd=VERIF)


CLAIM = {
    "tech": "Coq proof over a Gallina model of slide/notes creation from layouts (placeholder cloning, naming, inherited geometry) generic in the literal tables, which a translator re-extracts from the source each run; extracted-model correspondence on every corpus layout and generated layouts + independent oracle",
    "text": "71 theorems closed under the global context. Slide list (model/PlaceholderPkg.v: part identity vs part name, relationship table, p:sldIdLst), for ALL histories of additions, edits, both deletion recipes and failures inside a session: the new slide is the last entry and designates a new part under a part name, rId and slide id nobody uses, every other entry keeps designating the same part with the same state, no part is listed twice, no two reachable parts share a name, and saving + re-opening returns the same slide list (C13_pkg_add_slide_last_new, _remove_frame, _edit_frame, _history_invariant, _history_save); across sessions the same as long as no related slide part is unlisted (C13_pkg_history_all_sessions), with the witness that the condition is needed (C13_pkg_unlisted_collision_refuted). Slides, for ANY tables and ANY deck state: the new slide's placeholders mirror the layout's non-latent ones (type, idx, orientation, size, order), names and ids are fresh (the naming loop's fuel is proved sufficient), geometry is inherited from the first layout placeholder with the same idx until overridden: an accepted assignment to one dimension of a slide, layout or notes-slide placeholder (_set_dimension, modelled with its evaluation order) makes that dimension report the assigned value while the other three report exactly what they reported and everything else in the deck is unchanged, under the exact guard proved equivalent to acceptance (value in range, inherited lookups do not raise, inherited values in range); a refused value or a raising lookup leaves the deck untouched; a dimension with nothing to inherit reads 0 exactly when its partner was written; master and notes-master placeholders keep the plain element setter; the slide is last and related to its layout, everything else is unchanged, notes slides mirror the notes master; the exact guard under which add_slide / the geometry getters raise KeyError is characterised from the regenerated tables (C13_partial_maps_exact). The model is tied to slide.py / shapetree.py / placeholder.py by running histories on all 177 corpus layouts and ~500 generated layout populations on the real library and on the extracted model (0 diffs), and by an oracle on raw lxml.",
    "note": "slide-list histories run on every corpus deck with slides and on irregular start decks (part names out of order, gaps, related unlisted parts); tables (latent types, base names, layout->master type map, txBody types, templates) come from tx/tx_c13.py (trusted to transcribe, fail-closed); non-sp placeholders on layouts, shapes inside groups and damaged packages (missing_rels_item.pptx) are outside the model; duplicate idx within one layout is the property's side condition (first match wins, proved and exercised).",
    "ref": "6/C13",
}
