(** C16: recoverable irregular packages open intact; non-packages are refused cleanly. *)
From V.lib Require Import Prelude.
From V.model Require Import PackUri Opc OpcRun.
From V.gen Require Import GenC01.
From V.proofs Require Import Opc_proofs.

Theorem C16_no_unmodelled : unmodelled = [].
Proof. reflexivity. Qed.
Print Assumptions C16_no_unmodelled.
