(** Proofs about model/Opc.v. *)
From V.lib Require Import Prelude.
From V.model Require Import PackUri Opc.
From V.proofs Require Import Prelude_proofs PackUri_proofs.
From Coq Require Import Permutation Sorting.Sorted.

(** ---- small facts ---- *)

Lemma mem_str_nIn x l : mem_str x l = false <-> ~ In x l.
Proof. rewrite <- mem_str_In. destruct (mem_str x l); split; congruence. Qed.

Lemma str_eq_dec (a b : str) : {a = b} + {a <> b}.
Proof. destruct (str_eqb_spec a b); auto. Qed.

Lemma str_eqb_neq a b : str_eqb a b = false <-> a <> b.
Proof. destruct (str_eqb_spec a b); split; congruence. Qed.

Lemma str_eqb_sym a b : str_eqb a b = str_eqb b a.
Proof. destruct (str_eqb_spec a b), (str_eqb_spec b a); congruence. Qed.

Lemma filter_len {A} (b : A -> bool) L : length (filter b L) <= length L.
Proof. induction L as [|a L IHL]; simpl; [lia|destruct (b a); simpl; lia]. Qed.

(** ---- the depth-first walk computes reachability ---- *)

Section DFS.
Variable g : str -> list str.

Notation reach := (Opc.reach g).

Lemma reach_trans a b c : reach a b -> reach b c -> reach a c.
Proof. intros H1 H2. induction H2; auto. eapply (r1 g); eauto. Qed.

Lemma reach_step a b c : In b (g a) -> reach b c -> reach a c.
Proof. intros H1 H2. eapply reach_trans; [|exact H2]. eapply (r1 g); [apply (r0 g)|auto]. Qed.

(** nodes of interest: closed under [g] and inside the finite list [U] *)
Variable ok : str -> Prop.
Variable U : list str.
Hypothesis ok_closed : forall x y, ok x -> In y (g x) -> ok y.
Hypothesis ok_U : forall x, ok x -> In x U.

Definition unvL (L vis : list str) := length (filter (fun u => negb (mem_str u vis)) L).

Lemma unvL_mono L v v' : incl v v' -> unvL L v' <= unvL L v.
Proof.
  intros H; unfold unvL. induction L as [|u L' IH]; simpl; auto.
  destruct (mem_str u v') eqn:E'; destruct (mem_str u v) eqn:E; simpl; try lia.
  exfalso. apply (proj1 (mem_str_In _ _)) in E. apply H in E.
  apply (proj2 (mem_str_In _ _)) in E. congruence.
Qed.

Lemma unvL_le L x v : unvL L (x :: v) <= unvL L v.
Proof. apply unvL_mono. intros z Hz; simpl; auto. Qed.

Lemma unvL_cons L x v : In x L -> ~ In x v -> unvL L (x :: v) < unvL L v.
Proof.
  unfold unvL. induction L as [|u L' IH]; [simpl; tauto|]. intros Hin Hn.
  cbn [filter].
  assert (Hle := unvL_le L' x v). unfold unvL in Hle.
  destruct (str_eq_dec u x) as [->|Hne].
  - assert (E1: mem_str x (x :: v) = true) by (apply mem_str_In; simpl; auto).
    assert (E2: mem_str x v = false) by (apply mem_str_nIn; auto).
    rewrite E1, E2. cbn [negb length]. lia.
  - destruct Hin as [->|Hin]; [congruence|]. specialize (IH Hin Hn).
    assert (E: mem_str u (x :: v) = mem_str u v).
    { unfold mem_str; simpl. apply str_eqb_neq in Hne. rewrite Hne. reflexivity. }
    rewrite E. destruct (mem_str u v); cbn [negb length]; lia.
Qed.

Definition unv := unvL U.
Lemma unv_mono v v' : incl v v' -> unv v' <= unv v. Proof. apply unvL_mono. Qed.
Lemma unv_cons x v : In x U -> ~ In x v -> unv (x :: v) < unv v. Proof. apply unvL_cons. Qed.
Lemma unv_le_length v : unv v <= length U.
Proof. unfold unv, unvL. apply filter_len. Qed.

(** specification of one call of [dfs] *)
Definition spec (vis : list str) (src : str) (vis' : list str) :=
  incl (src :: vis) vis' /\
  (forall x, In x vis' -> ~ In x vis -> forall y, In y (g x) -> In y vis') /\
  (forall x, In x vis' -> In x vis \/ reach src x) /\
  (NoDup vis -> NoDup vis').

(** the loop over the successors, given the specification of the recursive calls *)
Lemma fold_spec f :
  (forall vis src, ~ In src vis -> ok src -> unv vis <= f -> spec vis src (dfs g (S f) vis src)) ->
  forall base srcs ys acc,
    (forall y, In y ys -> ok y) ->
    (forall y, In y ys -> exists s, In s srcs /\ reach s y) ->
    incl base acc -> unv acc <= f ->
    (forall x, In x acc -> ~ In x base -> forall y, In y (g x) -> In y acc) ->
    (forall x, In x acc -> In x base \/ exists s, In s srcs /\ reach s x) ->
    let r := fold_left (step (dfs g (S f))) ys acc in
    incl acc r /\
    (forall y, In y ys -> In y r) /\
    (forall x, In x r -> ~ In x base -> forall y, In y (g x) -> In y r) /\
    (forall x, In x r -> In x base \/ exists s, In s srcs /\ reach s x) /\
    (NoDup acc -> NoDup r).
Proof.
  intros IH base srcs ys. induction ys as [|y ys IHy]; intros acc Hok Hys Hacc Hu Hcl Hsd; cbn zeta.
  - cbn [fold_left]. split; [apply incl_refl|]. split; [intros ? []|]. split; auto.
  - assert (Hoky : ok y) by (apply Hok; simpl; auto).
    assert (Hok' : forall z, In z ys -> ok z) by (intros z Hz; apply Hok; simpl; auto).
    assert (Hys' : forall z, In z ys -> exists s, In s srcs /\ reach s z) by (intros z Hz; apply Hys; simpl; auto).
    cbn [fold_left]. unfold step at 2 4 6 8 10 12. destruct (mem_str y acc) eqn:E.
    + destruct (IHy acc Hok' Hys' Hacc Hu Hcl Hsd) as (A & B & C & D & N).
      split; [exact A|]. split; [|split; [exact C|split; [exact D|exact N]]].
      intros z [<-|Hz]; [apply A; apply mem_str_In; exact E|apply B; exact Hz].
    + apply mem_str_nIn in E.
      destruct (IH acc y E Hoky Hu) as (S1 & S2 & S3 & S4).
      set (acc1 := dfs g (S f) acc y) in *.
      assert (Hmono : incl acc acc1) by (intros z Hz; apply S1; simpl; auto).
      assert (Hacc1 : incl base acc1) by (intros z Hz; apply Hmono, Hacc, Hz).
      assert (Hu1 : unv acc1 <= f) by (pose proof (unv_mono _ _ Hmono); lia).
      assert (Hcl1 : forall x, In x acc1 -> ~ In x base -> forall y0, In y0 (g x) -> In y0 acc1).
      { intros x Hx Hnx y0 Hy0. destruct (in_dec str_eq_dec x acc) as [Hin|Hnin].
        - apply Hmono. eapply Hcl; eauto.
        - eapply S2; eauto. }
      assert (Hsd1 : forall x, In x acc1 -> In x base \/ exists s, In s srcs /\ reach s x).
      { intros x Hx. destruct (S3 x Hx) as [Hin|Hr]; auto.
        right. destruct (Hys y (or_introl eq_refl)) as (s & Hs & Hsy).
        exists s; split; auto. eapply reach_trans; eauto. }
      destruct (IHy acc1 Hok' Hys' Hacc1 Hu1 Hcl1 Hsd1) as (A & B & C & D & N).
      split; [intros z Hz; apply A, Hmono, Hz|]. split; [|split; [exact C|split; [exact D|auto]]].
      intros z [<-|Hz]; [apply A, S1; simpl; auto|apply B; exact Hz].
Qed.

Lemma dfs_spec fuel : forall vis src, ~ In src vis -> ok src -> unv vis <= fuel ->
  spec vis src (dfs g (S fuel) vis src).
Proof.
  induction fuel as [|f IH]; intros vis src Hn Hok Hf.
  - pose proof (unv_cons src vis (ok_U _ Hok) Hn). lia.
  - change (dfs g (S (S f)) vis src) with (fold_left (step (dfs g (S f))) (g src) (src :: vis)).
    assert (Hu0 : unv (src :: vis) <= f) by (pose proof (unv_cons src vis (ok_U _ Hok) Hn); lia).
    assert (H1 : forall y, In y (g src) -> ok y) by (intros y Hy; eapply ok_closed; eauto).
    assert (H2 : forall y, In y (g src) -> exists s, In s [src] /\ reach s y).
    { intros y Hy. exists src; split; [simpl; auto|]. eapply (r1 g); [apply (r0 g)|auto]. }
    assert (H5 : forall x, In x (src :: vis) -> ~ In x (src :: vis) -> forall y, In y (g x) -> In y (src :: vis))
      by (intros x Hx Hnx; contradiction).
    assert (H6 : forall x, In x (src :: vis) -> In x (src :: vis) \/ exists s, In s [src] /\ reach s x)
      by (intros x Hx; auto).
    destruct (fold_spec f IH (src :: vis) [src] (g src) (src :: vis) H1 H2 (incl_refl _) Hu0 H5 H6) as (A & B & C & D & N).
    unfold spec. repeat split; auto.
    + intros x Hx Hnx y Hy. destruct (str_eq_dec x src) as [->|Hne]; [apply B; auto|].
      eapply C; eauto. intros [E|E]; [congruence|auto].
    + intros x Hx. destruct (D x Hx) as [[<-|Hv]|(s & [<-|[]] & Hr)]; auto. right; apply (r0 g).
    + intros Hnd. apply N. constructor; auto.
Qed.

(** the walk from a single root *)
Theorem dfs_reach root0 fuel : ok root0 -> length U <= fuel ->
  (forall x, In x (dfs g (S fuel) [] root0) <-> reach root0 x) /\ NoDup (dfs g (S fuel) [] root0).
Proof.
  intros Hok Hf.
  assert (Hu : unv [] <= fuel) by (pose proof (unv_le_length []); lia).
  destruct (dfs_spec fuel [] root0 (fun H => H) Hok Hu) as (S1 & S2 & S3 & S4).
  split; [|apply S4; constructor].
  intros x; split.
  - intros Hx. destruct (S3 x Hx) as [[]|]; auto.
  - intros Hr. induction Hr.
    + apply S1; simpl; auto.
    + eapply S2; eauto.
Qed.

(** the walk from a list of start nodes (OpcPackage.iter_rels) *)
Theorem walk_reach ys fuel : (forall y, In y ys -> ok y) -> length U <= fuel ->
  (forall x, In x (walk g (S fuel) [] ys) <-> exists y, In y ys /\ reach y x)
  /\ NoDup (walk g (S fuel) [] ys).
Proof.
  intros Hok Hf. unfold walk.
  assert (Hu : unv [] <= fuel) by (pose proof (unv_le_length []); lia).
  assert (H2 : forall y, In y ys -> exists s, In s ys /\ reach s y)
    by (intros y Hy; exists y; split; auto; apply (r0 g)).
  assert (H5 : forall x, In x (@nil str) -> ~ In x (@nil str) -> forall y, In y (g x) -> In y (@nil str))
    by (intros x []).
  assert (H6 : forall x, In x (@nil str) -> In x (@nil str) \/ exists s, In s ys /\ reach s x)
    by (intros x []).
  destruct (fold_spec fuel (dfs_spec fuel) [] ys ys [] Hok H2 (incl_refl _) Hu H5 H6) as (A & B & C & D & N).
  split; [|apply N; constructor].
  intros x; split.
  - intros Hx. destruct (D x Hx) as [[]|]; auto.
  - intros (y & Hy & Hr). induction Hr.
    + apply B; auto.
    + eapply C; eauto.
Qed.
End DFS.

(** ---- association lists ---- *)

Lemma lookup_In {V} k (d : list (str * V)) v : lookup k d = Some v -> In (k, v) d.
Proof.
  induction d as [|[k' v'] d IH]; simpl; [discriminate|].
  destruct (str_eqb_spec k' k) as [->|Hn]; [intros [= ->]; auto|auto].
Qed.

Lemma lookup_In_fst {V} k (d : list (str * V)) v : lookup k d = Some v -> In k (map fst d).
Proof. intros H. apply lookup_In in H. apply (in_map fst) in H. exact H. Qed.

Lemma lookup_None {V} k (d : list (str * V)) : lookup k d = None <-> ~ In k (map fst d).
Proof.
  induction d as [|[k' v'] d IH]; simpl; [tauto|].
  destruct (str_eqb_spec k' k) as [->|Hn]; [split; [discriminate|tauto]|].
  rewrite IH. tauto.
Qed.

Lemma has_In {V} k (d : list (str * V)) : has k d = true <-> In k (map fst d).
Proof.
  unfold has. destruct (lookup k d) eqn:E.
  - split; auto. intros _. eapply lookup_In_fst; eauto.
  - apply lookup_None in E. split; [discriminate|tauto].
Qed.

Lemma lookup_app {V} k (a b : list (str * V)) :
  lookup k (a ++ b) = match lookup k a with Some v => Some v | None => lookup k b end.
Proof.
  induction a as [|[k' v'] a IH]; simpl; auto. destruct (str_eqb k' k); auto.
Qed.

Lemma lookup_NoDup_In {V} k v (d : list (str * V)) :
  NoDup (map fst d) -> In (k, v) d -> lookup k d = Some v.
Proof.
  induction d as [|[k' v'] d IH]; simpl; [tauto|]. intros Hnd [H|H].
  - inversion H; subst. rewrite str_eqb_refl. reflexivity.
  - inversion Hnd; subst. destruct (str_eqb_spec k' k) as [->|Hn]; auto.
    exfalso. apply H2. apply (in_map fst) in H. exact H.
Qed.

Lemma mapM_ok {A B} (f : A -> res B) (h : A -> B) l :
  (forall x, In x l -> f x = Ok (h x)) -> mapM f l = Ok (map h l).
Proof.
  induction l as [|x l IH]; simpl; auto. intros H.
  rewrite (H x) by auto. simpl. rewrite IH by auto. reflexivity.
Qed.

(** ---- the relationship dict keeps a list whose ids are distinct ---- *)

Lemma lrels_set_fresh r d : ~ In (l_id r) (map l_id d) -> lrels_set r d = d ++ [r].
Proof.
  induction d as [|r' d IH]; simpl; auto. intros H.
  destruct (str_eqb_spec (l_id r') (l_id r)) as [E|Hn]; [tauto|]. rewrite IH; auto.
Qed.

Lemma lrels_dict_acc l : forall acc, NoDup (map l_id (acc ++ l)) ->
  fold_left (fun d r => lrels_set r d) l acc = acc ++ l.
Proof.
  induction l as [|r l IH]; intros acc H; simpl.
  - rewrite app_nil_r; auto.
  - rewrite lrels_set_fresh.
    + rewrite IH; rewrite <- app_assoc; auto.
    + rewrite map_app in H. simpl in H. apply NoDup_remove_2 in H. intros Hc. apply H.
      apply in_or_app; auto.
Qed.

Lemma lrels_dict_id l : NoDup (map l_id l) -> lrels_dict l = l.
Proof. intros H. unfold lrels_dict. rewrite lrels_dict_acc; auto. Qed.

(** ---- conversion of decoded relationships under the side conditions ---- *)

Definition conv_rel (src : str) (r : rel) : lrel :=
  mkLrel (r_id r) (r_type r) (is_ext r)
         (if is_ext r then r_target r else resolve (baseURI src) (r_target r)).

Lemma valid_rels_all src present rs :
  (forall r, In r rs -> r_mode r <> MOther /\
     (is_ext r = false -> present (resolve (baseURI src) (r_target r)) = true)) ->
  valid_rels src present rs = Ok (map (conv_rel src) rs).
Proof.
  induction rs as [|r rs IH]; simpl; auto. intros H.
  destruct (H r (or_introl eq_refl)) as [Hm Hp].
  rewrite IH by (intros; apply H; auto). unfold conv_rel, is_ext in *.
  destruct (r_mode r); simpl; try congruence.
  rewrite Hp by auto. reflexivity.
Qed.

Lemma conv_rel_ids src rs : map l_id (map (conv_rel src) rs) = map r_id rs.
Proof. rewrite map_map. reflexivity. Qed.

Lemma lint_targets_conv src rs : lint_targets (map (conv_rel src) rs) = int_targets src rs.
Proof.
  unfold lint_targets, int_targets. induction rs as [|r rs IH]; simpl; auto.
  destruct (is_ext r) eqn:E; simpl; rewrite ?E; simpl; rewrite IH; auto.
Qed.

(** ---- the loader on a well-formed package ---- *)

Definition ct_or (c : cts) (n : str) : str := match ct_lookup c n with Ok t => t | Err _ => [] end.

Section Load.
Context {blob : Type}.
Variable E : env blob.
Variable p : phys blob.
Hypothesis Hwf : wf E p.

Lemma wf_ct : exists cb c, lookup ct_uri p = Some cb /\ dec_ct E cb = Some c /\
  forall x, reachable E p x -> x <> root ->
    exists ct b, ct_lookup c x = Ok ct /\ lookup x p = Some b /\
                 (is_xml_ct E ct = true -> exists b', reser E b = Some b').
Proof. exact (proj1 Hwf). Qed.

Lemma wf_rels x : reachable E p x -> exists rs, rels_for E p x = Some rs /\ NoDup (map r_id rs) /\
  forall r, In r rs -> r_mode r <> MOther /\
                       (is_ext r = false -> resolve (baseURI x) (r_target r) <> root).
Proof. exact (proj1 (proj2 Hwf) x). Qed.

Lemma wf_part_name x : reachable E p x -> x <> root -> part_name x.
Proof. exact (proj1 (proj2 (proj2 Hwf)) x). Qed.

Lemma wf_case x y : reachable E p x -> reachable E p y -> lower x = lower y -> x = y.
Proof. exact (proj2 (proj2 (proj2 Hwf)) x y). Qed.

Lemma reachable_member x : reachable E p x -> x <> root -> In x (map fst p).
Proof.
  intros Hr Hn. destruct wf_ct as (cb & c & _ & _ & H).
  destruct (H x Hr Hn) as (ct & b & _ & Hl & _). eapply lookup_In_fst; eauto.
Qed.

Lemma names_spec :
  (forall x, In x (xml_rels_names E p) <-> reachable E p x) /\ NoDup (xml_rels_names E p).
Proof.
  unfold xml_rels_names, fuel_of.
  destruct (dfs_reach (succs E p) (reachable E p) (root :: map fst p)) with (root0 := root) (fuel := S (length p))
    as [H1 H2].
  - intros x y Hx Hy. eapply r1; eauto.
  - intros x Hx. destruct (str_eq_dec x root) as [->|Hn]; [simpl; auto|].
    right. apply reachable_member; auto.
  - apply r0.
  - simpl. rewrite map_length. lia.
  - split.
    + intros x. rewrite <- in_rev. apply H1.
    + apply NoDup_rev. exact H2.
Qed.

Lemma part_names_spec :
  (forall x, In x (part_names E p) <-> (reachable E p x /\ x <> root)) /\ NoDup (part_names E p).
Proof.
  destruct names_spec as [H1 H2]. unfold part_names. split.
  - intros x. rewrite filter_In, H1, andb_true_iff, negb_true_iff, str_eqb_neq, has_In.
    split; [tauto|]. intros [Hr Hn]. repeat split; auto. apply reachable_member; auto.
  - apply NoDup_filter. exact H2.
Qed.

Lemma succs_rels x rs : rels_for E p x = Some rs -> succs E p x = int_targets x rs.
Proof. intros H. unfold succs. rewrite H. reflexivity. Qed.

Lemma rels_or_nil_eq x rs : rels_for E p x = Some rs -> rels_or_nil E p x = rs.
Proof. intros H. unfold rels_or_nil. rewrite H. reflexivity. Qed.

Lemma int_target_in src rs r : In r rs -> is_ext r = false ->
  In (resolve (baseURI src) (r_target r)) (int_targets src rs).
Proof.
  intros Hin He. unfold int_targets. apply in_map_iff. exists r. split; auto.
  apply filter_In. split; auto. rewrite He. reflexivity.
Qed.

(** targets of relationships of reachable sources are loaded parts *)
Lemma target_present x rs r : reachable E p x -> rels_for E p x = Some rs -> In r rs ->
  is_ext r = false -> In (resolve (baseURI x) (r_target r)) (part_names E p).
Proof.
  intros Hx Hrs Hin He. apply (proj1 part_names_spec). split.
  - eapply r1; [exact Hx|]. rewrite (succs_rels _ _ Hrs). apply int_target_in; auto.
  - destruct (wf_rels x Hx) as (rs' & Hrs' & _ & H). rewrite Hrs in Hrs'. inversion Hrs'; subst rs'.
    apply (H r Hin); auto.
Qed.

Lemma load_rels_wf x : reachable E p x ->
  load_rels E p (fun n => mem_str n (part_names E p)) x
  = Ok (map (conv_rel x) (rels_or_nil E p x)).
Proof.
  intros Hx. destruct (wf_rels x Hx) as (rs & Hrs & Hnd & H).
  unfold load_rels. rewrite (rels_or_nil_eq _ _ Hrs). rewrite valid_rels_all.
  - simpl. rewrite lrels_dict_id; auto. rewrite conv_rel_ids; auto.
  - intros r Hin. split; [apply (H r Hin)|]. intros He. apply mem_str_In.
    eapply target_present; eauto.
Qed.

(** the part the loader builds for a name *)
Definition blob_or (c : cts) (n : str) : blob :=
  match lookup n p with
  | Some b => if is_xml_ct E (ct_or c n)
              then match reser E b with Some b' => b' | None => b end else b
  | None => enc_rels E []
  end.

Definition spec_part (c : cts) (n : str) : part blob :=
  mkPart n (ct_or c n) (blob_or c n) (map (conv_rel n) (rels_or_nil E p n)).

Definition spec_pkg (c : cts) : pkg blob :=
  mkPkg (map (conv_rel root) (rels_or_nil E p root)) (map (spec_part c) (part_names E p)).

Lemma load_wf : exists cb c, lookup ct_uri p = Some cb /\ dec_ct E cb = Some c /\
  load E p = Ok (spec_pkg c).
Proof.
  destruct wf_ct as (cb & c & Hcb & Hc & Hparts). exists cb, c. repeat split; auto.
  unfold load. rewrite Hcb, Hc.
  destruct names_spec as [Hn1 Hn2]. destruct part_names_spec as [Hp1 Hp2].
  assert (Hdec : forallb (fun n => match rels_for E p n with Some _ => true | None => false end)
                         (xml_rels_names E p) = true).
  { apply forallb_forall. intros x Hx. apply Hn1 in Hx. destruct (wf_rels x Hx) as (rs & -> & _). auto. }
  rewrite Hdec. cbn [negb].
  rewrite (mapM_ok (load_part E p c) (fun n => (n, ct_or c n, blob_or c n))).
  2:{ intros x Hx. apply Hp1 in Hx as [Hr Hne]. destruct (Hparts x Hr Hne) as (ct & b & Hct & Hb & Hx).
      unfold load_part, blob_or, ct_or. rewrite Hct. simpl. rewrite Hb.
      destruct (is_xml_ct E ct) eqn:Ex; auto. destruct (Hx eq_refl) as (b' & ->). reflexivity. }
  cbn [bind].
  rewrite (mapM_ok _ (fun pr : str * str * blob => let '(n, ct, b) := pr in
                        mkPart n ct b (map (conv_rel n) (rels_or_nil E p n)))).
  2:{ intros [[n ct] b] Hin. apply in_map_iff in Hin as (x & Hx & Hin). inversion Hx; subst.
      apply Hp1 in Hin as [Hr _]. rewrite load_rels_wf by auto. reflexivity. }
  cbn [bind]. rewrite load_rels_wf by apply r0. cbn [bind].
  unfold spec_pkg. rewrite map_map. reflexivity.
Qed.
End Load.

(** ---- iter_parts on the loaded package ---- *)

Section Iter.
Context {blob : Type}.
Variable E : env blob.
Variable p : phys blob.
Hypothesis Hwf : wf E p.
Variable c : cts.

Notation k := (spec_pkg E p c).
Notation pn := (part_names E p).

Lemma find_spec_part n l :
  find (fun pt : part blob => str_eqb (p_name pt) n) (map (spec_part E p c) l)
  = if mem_str n l then Some (spec_part E p c n) else None.
Proof.
  induction l as [|x l IH]; simpl; auto. unfold mem_str in *. simpl.
  rewrite (str_eqb_sym n x). destruct (str_eqb_spec x n) as [->|Hn]; simpl; auto.
Qed.

Lemma find_part_spec n : find_part k n = if mem_str n pn then Some (spec_part E p c n) else None.
Proof. unfold find_part. simpl. apply find_spec_part. Qed.

Lemma lsuccs_spec n : lsuccs k n = if mem_str n pn then succs E p n else [].
Proof.
  unfold lsuccs. rewrite find_part_spec. destruct (mem_str n pn) eqn:Em; auto.
  apply mem_str_In in Em. apply (proj1 (part_names_spec E p Hwf)) in Em as [Hr _].
  destruct (wf_rels E p Hwf n Hr) as (rs & Hrs & _). simpl.
  rewrite (rels_or_nil_eq E p _ _ Hrs), lint_targets_conv, (succs_rels E p _ _ Hrs). reflexivity.
Qed.

Lemma succs_part_names x y : reachable E p x -> In y (succs E p x) -> In y pn.
Proof.
  intros Hx Hy. destruct (wf_rels E p Hwf x Hx) as (rs & Hrs & _).
  rewrite (succs_rels E p _ _ Hrs) in Hy. unfold int_targets in Hy.
  apply in_map_iff in Hy as (r & <- & Hr). apply filter_In in Hr as [Hr He].
  apply negb_true_iff in He. eapply target_present; eauto.
Qed.

Lemma k_rels_targets : lint_targets (k_rels k) = succs E p root.
Proof.
  simpl. destruct (wf_rels E p Hwf root (r0 _ _)) as (rs & Hrs & _).
  rewrite (rels_or_nil_eq E p _ _ Hrs), lint_targets_conv, (succs_rels E p _ _ Hrs). reflexivity.
Qed.

Lemma reach_l_in y x : reach (lsuccs k) y x -> In y pn -> In x pn.
Proof.
  induction 1; auto. intros Hy. specialize (IHreach Hy).
  rewrite lsuccs_spec in H0. apply (proj2 (mem_str_In _ _)) in IHreach as Hm. rewrite Hm in H0.
  apply (proj1 (part_names_spec E p Hwf)) in IHreach as [Hr _]. eapply succs_part_names; eauto.
Qed.

Lemma reachable_via_l x : reachable E p x -> x <> root ->
  exists y, In y (succs E p root) /\ reach (lsuccs k) y x.
Proof.
  induction 1 as [|x' y Hr IH Hy]; [congruence|]. intros Hne.
  destruct (str_eq_dec x' root) as [->|Hn'].
  - exists y. split; auto. apply r0.
  - destruct (IH Hn') as (y0 & Hy0 & Hr0). exists y0. split; auto.
    eapply r1; [exact Hr0|]. rewrite lsuccs_spec.
    assert (Hin : In x' pn) by (apply (proj1 (part_names_spec E p Hwf)); auto).
    apply (proj2 (mem_str_In _ _)) in Hin. rewrite Hin. exact Hy.
Qed.

Lemma iter_part_names_spec :
  (forall x, In x (iter_part_names k) <-> (reachable E p x /\ x <> root))
  /\ NoDup (iter_part_names k).
Proof.
  unfold iter_part_names, fuel_of. rewrite k_rels_targets.
  destruct (walk_reach (lsuccs k) (fun x => In x pn) pn) with (ys := succs E p root)
    (fuel := S (length (k_parts k))) as [H1 H2].
  - intros x y Hx Hy. eapply reach_l_in; [|exact Hx]. eapply r1; [apply r0|exact Hy].
  - auto.
  - intros y Hy. eapply succs_part_names; [apply r0|exact Hy].
  - simpl. rewrite map_length. lia.
  - split.
    + intros x. rewrite <- in_rev, H1. split.
      * intros (y & Hy & Hr). apply (proj1 (part_names_spec E p Hwf)).
        eapply reach_l_in; [exact Hr|]. eapply succs_part_names; [apply r0|exact Hy].
      * intros [Hr Hn]. apply reachable_via_l; auto.
    + apply NoDup_rev. exact H2.
Qed.

Lemma iter_parts_spec : iter_parts k = map (spec_part E p c) (iter_part_names k).
Proof.
  unfold iter_parts. destruct iter_part_names_spec as [H1 _].
  assert (H : forall x, In x (iter_part_names k) -> In x pn).
  { intros x Hx. apply (proj1 (part_names_spec E p Hwf)). apply H1. exact Hx. }
  clear H1. revert H. generalize (iter_part_names k). intros l.
  induction l as [|x l IH]; intros H; simpl; auto.
  rewrite find_part_spec. rewrite (proj2 (mem_str_In _ _)) by (apply H; simpl; auto).
  simpl. f_equal. apply IH. intros y Hy. apply H; simpl; auto.
Qed.
End Iter.

(** ---- shapes of names ---- *)

Definition seg_free (L : list str) : Prop := Forall (fun s => nfree c_slash s = true) L.

Lemma render_inj P Q : P <> [] -> Q <> [] -> seg_free P -> seg_free Q -> render P = render Q -> P = Q.
Proof.
  intros HP HQ FP FQ H. pose proof (split_on_render P HP FP) as H1.
  pose proof (split_on_render Q HQ FQ) as H2. rewrite H in H1. rewrite H1 in H2. congruence.
Qed.

Lemma nfree_app c a b : nfree c (a ++ b) = nfree c a && nfree c b.
Proof. unfold nfree. apply forallb_app. Qed.

Lemma seg_free_rels d f : wf_name d -> nfree c_slash f = true -> seg_free (d ++ [s_rels_dir; f]).
Proof.
  intros Hd Hf. apply Forall_app. split; [apply wf_name_nfree; auto|].
  repeat constructor; auto.
Qed.

Lemma part_name_split x : part_name x ->
  exists d f, x = render (d ++ [f]) /\ wf_name d /\ wf_segb f = true /\
              rels_item_name x = render (d ++ [s_rels_dir; f ++ s_rels_ext]).
Proof.
  intros (P & HP & Hne & -> & _).
  destruct (rev_cons_exists P Hne) as (d & f & ->).
  apply Forall_app in HP as [Hd Hf]. inversion Hf; subst.
  exists d, f. repeat split; auto.
  unfold rels_item_name. rewrite rels_uri_render; auto.
Qed.

Lemma rels_item_root : rels_item_name root = render [s_rels_dir; s_rels_ext].
Proof. reflexivity. Qed.

Lemma ct_uri_render : ct_uri = render [tl ct_uri].
Proof. reflexivity. Qed.

(** a name shaped like a rels item: the last directory is _rels *)
Definition rels_shaped (x : str) : Prop :=
  exists d f, wf_name d /\ nfree c_slash f = true /\ x = render (d ++ [s_rels_dir; f]).

Lemma rels_item_shaped x : part_name x -> rels_shaped (rels_item_name x).
Proof.
  intros H. destruct (part_name_split x H) as (d & f & _ & Hd & Hf & ->).
  exists d, (f ++ s_rels_ext). repeat split; auto.
  rewrite nfree_app. apply wf_segb_inv in Hf as (_ & Hf & _). rewrite Hf. reflexivity.
Qed.

Lemma rels_item_root_shaped : rels_shaped (rels_item_name root).
Proof. exists [], s_rels_ext. repeat split; auto. constructor. Qed.

Lemma app_two_ne_nil {A} (d : list A) a b : d ++ [a; b] <> [].
Proof. destruct d; discriminate. Qed.

Lemma part_name_not_shaped x : part_name x -> ~ rels_shaped x.
Proof.
  intros (P & HP & Hne & -> & _ & Hns) (d & f & Hd & Hf & Heq).
  apply Hns. exists d, f. apply render_inj; auto.
  - apply app_two_ne_nil.
  - apply wf_name_nfree; auto.
  - apply seg_free_rels; auto.
Qed.

Lemma ct_uri_not_shaped : ~ rels_shaped ct_uri.
Proof.
  intros (d & f & Hd & Hf & Heq). rewrite ct_uri_render in Heq.
  apply render_inj in Heq.
  - destruct d as [|a [|b d]]; discriminate.
  - discriminate.
  - apply app_two_ne_nil.
  - repeat constructor.
  - apply seg_free_rels; auto.
Qed.

Lemma rels_item_inj x y : part_name x -> part_name y -> rels_item_name x = rels_item_name y -> x = y.
Proof.
  intros Hx Hy H.
  destruct (part_name_split x Hx) as (d & f & -> & Hd & Hf & Ex).
  destruct (part_name_split y Hy) as (d' & f' & -> & Hd' & Hf' & Ey).
  rewrite Ex, Ey in H. apply render_inj in H.
  - change [s_rels_dir; f ++ s_rels_ext] with ([s_rels_dir] ++ [f ++ s_rels_ext]) in H.
    change [s_rels_dir; f' ++ s_rels_ext] with ([s_rels_dir] ++ [f' ++ s_rels_ext]) in H.
    rewrite !app_assoc in H. apply app_inj_tail in H as [H1 H2].
    apply app_inj_tail in H1 as [H1 _]. apply app_inv_tail in H2. subst. reflexivity.
  - apply app_two_ne_nil.
  - apply app_two_ne_nil.
  - apply seg_free_rels; auto. rewrite nfree_app. apply wf_segb_inv in Hf as (_ & -> & _). reflexivity.
  - apply seg_free_rels; auto. rewrite nfree_app. apply wf_segb_inv in Hf' as (_ & -> & _). reflexivity.
Qed.

Lemma rels_item_not_root x : part_name x -> rels_item_name x <> rels_item_name root.
Proof.
  intros Hx H. destruct (part_name_split x Hx) as (d & f & _ & Hd & Hf & Ex).
  rewrite Ex, rels_item_root in H. apply render_inj in H.
  - destruct d as [|a d]; simpl in H.
    + inversion H as [H1]. apply wf_segb_inv in Hf as (Hne & _).
      apply (f_equal (@length _)) in H1. rewrite app_length in H1. destruct f; [congruence|simpl in H1; lia].
    + apply (f_equal (@length _)) in H. simpl in H. rewrite app_length in H. simpl in H. lia.
  - apply app_two_ne_nil.
  - discriminate.
  - apply seg_free_rels; auto. rewrite nfree_app. apply wf_segb_inv in Hf as (_ & -> & _). reflexivity.
  - repeat constructor.
Qed.

Lemma NoDup_app_intro {A} (a b : list A) :
  NoDup a -> NoDup b -> (forall x, In x a -> ~ In x b) -> NoDup (a ++ b).
Proof.
  induction a as [|x a IH]; simpl; auto. intros Ha Hb Hd. inversion Ha; subst.
  constructor.
  - intros Hin. apply in_app_or in Hin as [Hin|Hin]; [auto|]. apply (Hd x); auto.
  - apply IH; auto.
Qed.

Lemma NoDup_flat_map {A B} (f : A -> list B) l :
  NoDup l -> (forall x, In x l -> NoDup (f x)) ->
  (forall x y z, In x l -> In y l -> x <> y -> In z (f x) -> ~ In z (f y)) ->
  NoDup (flat_map f l).
Proof.
  induction l as [|a l IH]; simpl; intros Hnd Hf Hd; [constructor|].
  inversion Hnd; subst. apply NoDup_app_intro.
  - apply Hf; auto.
  - apply IH; auto. intros x y z Hx Hy. apply Hd; auto.
  - intros z Hz Hin. apply in_flat_map in Hin as (y & Hy & Hzy).
    apply (Hd a y z); auto. intros ->. auto.
Qed.

(** ---- the saved package: member names ---- *)

Section SaveNames.
Context {blob : Type}.
Variable E : env blob.
Variable p : phys blob.
Hypothesis Hwf : wf E p.
Variable c : cts.

Notation k := (spec_pkg E p c).

Definition mnames (n : str) : list str :=
  n :: match rels_or_nil E p n with [] => [] | _ => [rels_item_name n] end.

Lemma part_members_names n : map fst (part_members E (spec_part E p c n)) = mnames n.
Proof. unfold part_members, mnames. simpl. destruct (rels_or_nil E p n); reflexivity. Qed.

Lemma save_names :
  map fst (save E k) = ct_uri :: rels_item_name root :: flat_map mnames (iter_part_names k).
Proof.
  unfold save. cbn [map fst]. f_equal. f_equal. rewrite (iter_parts_spec E p Hwf c).
  induction (iter_part_names k) as [|n l IH]; [reflexivity|].
  cbn [map flat_map]. rewrite map_app, IH, part_members_names. reflexivity.
Qed.

Lemma iter_name_part_name n : In n (iter_part_names k) -> part_name n.
Proof.
  intros H. apply (proj1 (iter_part_names_spec E p Hwf c)) in H as [Hr Hn].
  apply (wf_part_name E p Hwf); auto.
Qed.

Lemma part_name_ne_ct x : part_name x -> x <> ct_uri.
Proof. intros (P & _ & _ & _ & H & _). exact H. Qed.

Lemma save_names_NoDup : NoDup (map fst (save E k)).
Proof.
  rewrite save_names.
  assert (Hin : forall z, In z (flat_map mnames (iter_part_names k)) ->
            exists n, In n (iter_part_names k) /\ (z = n \/ z = rels_item_name n)).
  { intros z Hz. apply in_flat_map in Hz as (n & Hn & Hz). exists n. split; auto.
    unfold mnames in Hz. destruct Hz as [<-|Hz]; auto.
    destruct (rels_or_nil E p n); [destruct Hz|]. destruct Hz as [<-|[]]; auto. }
  constructor; [|constructor].
  - intros [H|H].
    + apply ct_uri_not_shaped. rewrite <- H. apply rels_item_root_shaped.
    + apply Hin in H as (n & Hn & [H | H]).
      * apply (part_name_ne_ct n); auto. apply iter_name_part_name; auto.
      * apply ct_uri_not_shaped. rewrite H. apply rels_item_shaped. apply iter_name_part_name; auto.
  - intros H. apply Hin in H as (n & Hn & [H|H]).
    + apply (part_name_not_shaped n); [apply iter_name_part_name; auto|].
      rewrite <- H. apply rels_item_root_shaped.
    + symmetry in H. apply rels_item_not_root in H; auto. apply iter_name_part_name; auto.
  - apply NoDup_flat_map.
    + apply (proj2 (iter_part_names_spec E p Hwf c)).
    + intros n Hn. unfold mnames. destruct (rels_or_nil E p n); repeat constructor; simpl; auto.
      intros [H|[]]. apply (part_name_not_shaped n); [apply iter_name_part_name; auto|].
      rewrite <- H. apply rels_item_shaped. apply iter_name_part_name; auto.
    + intros x y z Hx Hy Hne Hzx Hzy.
      pose proof (iter_name_part_name x Hx) as Px. pose proof (iter_name_part_name y Hy) as Py.
      assert (Hz1 : z = x \/ z = rels_item_name x).
      { unfold mnames in Hzx. destruct Hzx as [<-|Hz]; auto.
        destruct (rels_or_nil E p x); [destruct Hz|]. destruct Hz as [<-|[]]; auto. }
      assert (Hz2 : z = y \/ z = rels_item_name y).
      { unfold mnames in Hzy. destruct Hzy as [<-|Hz]; auto.
        destruct (rels_or_nil E p y); [destruct Hz|]. destruct Hz as [<-|[]]; auto. }
      destruct Hz1 as [-> | ->], Hz2 as [H|H].
      * congruence.
      * apply (part_name_not_shaped x Px). rewrite H. apply rels_item_shaped; auto.
      * apply (part_name_not_shaped y Py). rewrite <- H. apply rels_item_shaped; auto.
      * apply Hne. apply rels_item_inj; auto.
Qed.

Lemma save_names_spec n :
  In n (map fst (save E k)) <->
  (n = ct_uri \/ n = rels_item_name root \/
   exists x, reachable E p x /\ x <> root /\
             (n = x \/ (n = rels_item_name x /\ rels_or_nil E p x <> []))).
Proof.
  rewrite save_names. simpl. rewrite in_flat_map.
  split.
  - intros [<-|[<-|(x & Hx & Hn)]]; auto. right; right.
    apply (proj1 (iter_part_names_spec E p Hwf c)) in Hx as [Hr Hne].
    exists x. repeat split; auto. unfold mnames in Hn. destruct Hn as [<-|Hn]; auto.
    destruct (rels_or_nil E p x); [destruct Hn|]. destruct Hn as [<-|[]]. right; split; auto; discriminate.
  - intros [-> | [-> | (x & Hr & Hne & Hn)]]; auto. right; right. exists x. split.
    + apply (proj1 (iter_part_names_spec E p Hwf c)); auto.
    + unfold mnames. destruct Hn as [-> | [-> Hn]]; simpl; auto.
      destruct (rels_or_nil E p x); [congruence|simpl; auto].
Qed.
End SaveNames.

Lemma c01_reach {blob} (E : env blob) p : wf E p ->
  exists k, load E p = Ok k /\ NoDup (map p_name (iter_parts k)) /\
    forall x, In x (map p_name (iter_parts k)) <-> (reachable E p x /\ x <> root).
Proof.
  intros Hwf. destruct (load_wf E p Hwf) as (cb & c & _ & _ & Hl). exists (spec_pkg E p c).
  split; auto. rewrite (iter_parts_spec E p Hwf c), map_map. simpl. rewrite map_id.
  destruct (iter_part_names_spec E p Hwf c) as [H1 H2]. split; auto.
Qed.

Lemma c01_members {blob} (E : env blob) p : wf E p ->
  exists k, load E p = Ok k /\ NoDup (map fst (save E k)) /\
    forall n, In n (map fst (save E k)) <->
      (n = ct_uri \/ n = rels_item_name root \/
       exists x, reachable E p x /\ x <> root /\
                 (n = x \/ (n = rels_item_name x /\ rels_or_nil E p x <> []))).
Proof.
  intros Hwf. destruct (load_wf E p Hwf) as (cb & c & _ & _ & Hl). exists (spec_pkg E p c).
  split; auto. split; [apply save_names_NoDup; auto|apply save_names_spec; auto].
Qed.

(** ---- sorting and dict lemmas ---- *)

Lemma insert_by_perm {A} (leb : A -> A -> bool) x l : Permutation (insert_by leb x l) (x :: l).
Proof.
  induction l as [|y l IH]; simpl; auto. destruct (leb x y); auto.
  eapply perm_trans; [apply perm_skip, IH|apply perm_swap].
Qed.

Lemma sort_by_perm {A} (leb : A -> A -> bool) l : Permutation (sort_by leb l) l.
Proof.
  induction l as [|x l IH]; simpl; auto.
  eapply perm_trans; [apply insert_by_perm|apply perm_skip, IH].
Qed.

Lemma lookup_perm {V} k (a b : list (str * V)) :
  Permutation a b -> NoDup (map fst a) -> lookup k a = lookup k b.
Proof.
  intros HP Hnd. destruct (lookup k a) eqn:Ea.
  - symmetry. apply lookup_NoDup_In.
    + eapply Permutation_NoDup; [apply Permutation_map, HP|auto].
    + eapply Permutation_in; [exact HP|]. apply lookup_In; auto.
  - symmetry. apply lookup_None. apply lookup_None in Ea. intros Hin. apply Ea.
    eapply Permutation_in; [apply Permutation_map, Permutation_sym, HP|auto].
Qed.

Lemma lookup_sort {V} k (leb : str * V -> str * V -> bool) l :
  NoDup (map fst l) -> lookup k (sort_by leb l) = lookup k l.
Proof.
  intros H. apply lookup_perm; [apply sort_by_perm|].
  eapply Permutation_NoDup; [apply Permutation_map, Permutation_sym, sort_by_perm|auto].
Qed.

Lemma dict_set_fresh {V} k (v : V) d : ~ In k (map fst d) -> dict_set k v d = d ++ [(k, v)].
Proof.
  induction d as [|[k' v'] d IH]; simpl; auto. intros H.
  destruct (str_eqb_spec k' k) as [->|Hn]; [tauto|]. rewrite IH; auto.
Qed.

Lemma dict_set_keys {V} k (v : V) d :
  map fst (dict_set k v d) = if mem_str k (map fst d) then map fst d else map fst d ++ [k].
Proof.
  induction d as [|[k' v'] d IH]; simpl; auto. unfold mem_str in *. simpl.
  rewrite (str_eqb_sym k k'). destruct (str_eqb_spec k' k) as [->|Hn]; simpl; auto.
  rewrite IH. destruct (existsb (str_eqb k) (map fst d)); auto.
Qed.

Lemma dict_set_NoDup {V} k (v : V) d : NoDup (map fst d) -> NoDup (map fst (dict_set k v d)).
Proof.
  intros H. rewrite dict_set_keys. destruct (mem_str k (map fst d)) eqn:E; auto.
  apply mem_str_nIn in E. apply NoDup_app_intro; auto.
  - repeat constructor; simpl; auto.
  - intros x Hx [<-|[]]. auto.
Qed.

Lemma lookup_dict_set_same {V} k (v : V) d : lookup k (dict_set k v d) = Some v.
Proof.
  induction d as [|[k' v'] d IH]; simpl.
  - rewrite str_eqb_refl; auto.
  - destruct (str_eqb_spec k' k) as [->|Hn]; simpl.
    + rewrite str_eqb_refl; auto.
    + apply str_eqb_neq in Hn. rewrite Hn. auto.
Qed.

Lemma lookup_dict_set_other {V} k k2 (v : V) d : k2 <> k -> lookup k2 (dict_set k v d) = lookup k2 d.
Proof.
  intros Hne. induction d as [|[k' v'] d IH]; simpl.
  - apply not_eq_sym in Hne. apply str_eqb_neq in Hne. rewrite Hne; auto.
  - destruct (str_eqb_spec k' k) as [->|Hn]; simpl.
    + apply not_eq_sym in Hne. apply str_eqb_neq in Hne. rewrite Hne; auto.
    + destruct (str_eqb k' k2); auto.
Qed.

Lemma dict_of_acc {V} (l : list (str * V)) : forall acc, NoDup (map fst (acc ++ l)) ->
  fold_left (fun d kv => dict_set (fst kv) (snd kv) d) l acc = acc ++ l.
Proof.
  induction l as [|[k v] l IH]; intros acc H; simpl.
  - rewrite app_nil_r; auto.
  - rewrite dict_set_fresh.
    + rewrite IH; rewrite <- app_assoc; auto.
    + rewrite map_app in H. simpl in H. apply NoDup_remove_2 in H. intros Hc. apply H.
      apply in_or_app; auto.
Qed.

Lemma dict_of_id {V} (l : list (str * V)) : NoDup (map fst l) -> dict_of l = l.
Proof. intros H. unfold dict_of. rewrite dict_of_acc; auto. Qed.

Lemma lower_c_idem c : lower_c (lower_c c) = lower_c c.
Proof.
  unfold lower_c. destruct ((65 <=? c)%N && (c <=? 90)%N) eqn:E; [|rewrite E; auto].
  apply andb_true_iff in E as [E1 E2]. apply N.leb_le in E1, E2.
  assert (H : ((65 <=? c + 32)%N && (c + 32 <=? 90)%N) = false).
  { apply andb_false_iff. right. apply N.leb_gt. lia. }
  rewrite H. reflexivity.
Qed.

Lemma lower_idem s : lower (lower s) = lower s.
Proof. unfold lower. rewrite map_map. apply map_ext. apply lower_c_idem. Qed.

(** lookup through lower-cased keys when lower-casing is injective on the keys at hand *)
Lemma lookup_lower_keys q (l : list (str * str)) :
  (forall k1 k2, In k1 (q :: map fst l) -> In k2 (q :: map fst l) -> lower k1 = lower k2 -> k1 = k2) ->
  NoDup (map fst l) ->
  lookup (lower q) (lower_keys l) = lookup q l.
Proof.
  intros Hinj Hnd. unfold lower_keys.
  assert (Hnd' : NoDup (map fst (map (fun kv : str * str => (lower (fst kv), snd kv)) l))).
  { rewrite map_map. simpl. clear - Hinj Hnd.
    assert (H : forall k1 k2, In k1 (map fst l) -> In k2 (map fst l) -> lower k1 = lower k2 -> k1 = k2)
      by (intros; apply Hinj; simpl; auto).
    clear Hinj. induction l as [|[k v] l IH]; simpl; constructor.
    - inversion Hnd; subst. intros Hin. apply in_map_iff in Hin as ([k' v'] & He & Hin). simpl in He.
      apply H2. assert (k' = k); [|subst; apply (in_map fst) in Hin; auto].
      apply H; simpl; auto. right. apply (in_map fst) in Hin. auto.
    - inversion Hnd; subst. apply IH; auto. intros; apply H; simpl; auto. }
  rewrite dict_of_id by auto. clear Hnd'.
  assert (H : forall k, In k (map fst l) -> lower k = lower q -> k = q)
    by (intros; apply Hinj; simpl; auto).
  clear Hinj Hnd. induction l as [|[k v] l IH]; simpl; auto.
  destruct (str_eqb_spec k q) as [->|Hn].
  - rewrite str_eqb_refl. auto.
  - destruct (str_eqb_spec (lower k) (lower q)) as [He|Hne].
    + exfalso. apply Hn. apply H; simpl; auto.
    + apply IH. intros; apply H; simpl; auto.
Qed.

Lemma lower_keys_lowered (l : list (str * str)) :
  NoDup (map fst l) -> (forall k, In k (map fst l) -> lower k = k) -> lower_keys l = l.
Proof.
  intros Hnd Hl. unfold lower_keys.
  assert (E : map (fun kv : str * str => (lower (fst kv), snd kv)) l = l).
  { clear Hnd. induction l as [|[k v] l IH]; simpl; auto. rewrite Hl by (simpl; auto).
    f_equal. apply IH. intros; apply Hl; simpl; auto. }
  rewrite E. apply dict_of_id; auto.
Qed.

(** ---- _ContentTypesItem._defaults_and_overrides ---- *)

Section CTI.
Context {blob : Type}.
Variable E : env blob.

Definition pext (pt : part blob) : str := lower (ext (p_name pt)).
Definition intab (pt : part blob) : bool := in_table (deftbl E) (pext pt) (p_ct pt).

Lemma cti_step_eq acc pt :
  cti_step E acc pt = if intab pt then (dict_set (pext pt) (p_ct pt) (fst acc), snd acc)
                      else (fst acc, dict_set (p_name pt) (p_ct pt) (snd acc)).
Proof. reflexivity. Qed.

Lemma cti_overrides L : forall D0 O0, NoDup (map fst O0 ++ map p_name L) ->
  snd (fold_left (cti_step E) L (D0, O0))
  = O0 ++ map (fun pt => (p_name pt, p_ct pt)) (filter (fun pt => negb (intab pt)) L).
Proof.
  induction L as [|a L IH]; intros D0 O0 Hnd; cbn [fold_left filter map].
  - rewrite app_nil_r. reflexivity.
  - rewrite cti_step_eq. cbn [fst snd]. destruct (intab a) eqn:Ea; cbn [negb].
    + apply IH. simpl in Hnd. apply NoDup_remove_1 in Hnd. exact Hnd.
    + rewrite dict_set_fresh.
      * rewrite IH.
        -- rewrite <- app_assoc. reflexivity.
        -- rewrite map_app. simpl. rewrite <- app_assoc. simpl. exact Hnd.
      * simpl in Hnd. apply NoDup_remove_2 in Hnd. intros Hin. apply Hnd. apply in_or_app; auto.
Qed.

Lemma cti_defaults_val L : forall D0 O0 key v,
  lookup key (fst (fold_left (cti_step E) L (D0, O0))) = Some v ->
  (exists pt, In pt L /\ intab pt = true /\ pext pt = key /\ p_ct pt = v) \/
  (lookup key D0 = Some v /\ forall pt, In pt L -> intab pt = true -> pext pt <> key).
Proof.
  induction L as [|a L IH]; intros D0 O0 key v H; cbn [fold_left] in H.
  - right. split; [auto|intros pt []].
  - rewrite cti_step_eq in H. cbn [fst snd] in H. destruct (intab a) eqn:Ea.
    + apply IH in H as [(pt & Hin & H1 & H2 & H3)|[H1 H2]].
      * left. exists pt. simpl; auto.
      * destruct (str_eq_dec key (pext a)) as [->|Hne].
        -- rewrite lookup_dict_set_same in H1. inversion H1; subst. left. exists a. simpl; auto.
        -- rewrite lookup_dict_set_other in H1 by auto. right. split; auto.
           intros pt [<-|Hin] Hi; auto.
    + apply IH in H as [(pt & Hin & H1 & H2 & H3)|[H1 H2]].
      * left. exists pt. simpl; auto.
      * right. split; auto. intros pt [<-|Hin] Hi; [congruence|auto].
Qed.

Lemma cti_defaults_mono L : forall D0 O0 key, (exists v, lookup key D0 = Some v) ->
  exists v, lookup key (fst (fold_left (cti_step E) L (D0, O0))) = Some v.
Proof.
  induction L as [|a L IH]; intros D0 O0 key H; cbn [fold_left]; auto.
  rewrite cti_step_eq. cbn [fst snd]. destruct (intab a); apply IH; auto.
  destruct (str_eq_dec key (pext a)) as [->|Hne].
  - rewrite lookup_dict_set_same. eauto.
  - rewrite lookup_dict_set_other; auto.
Qed.

Lemma cti_defaults_key L : forall D0 O0 pt, In pt L -> intab pt = true ->
  exists v, lookup (pext pt) (fst (fold_left (cti_step E) L (D0, O0))) = Some v.
Proof.
  induction L as [|a L IH]; intros D0 O0 pt Hin Hi; [destruct Hin|].
  destruct Hin as [<-|Hin]; cbn [fold_left].
  - rewrite cti_step_eq, Hi. cbn [fst snd]. apply cti_defaults_mono.
    rewrite lookup_dict_set_same. eauto.
  - destruct (cti_step E (D0, O0) a) as [D1 O1]. apply IH; auto.
Qed.

Lemma cti_defaults_keys L : forall D0 O0,
  NoDup (map fst D0) -> (forall k, In k (map fst D0) -> lower k = k) ->
  NoDup (map fst (fst (fold_left (cti_step E) L (D0, O0)))) /\
  (forall k, In k (map fst (fst (fold_left (cti_step E) L (D0, O0)))) -> lower k = k).
Proof.
  induction L as [|a L IH]; intros D0 O0 Hnd Hl; cbn [fold_left]; auto.
  rewrite cti_step_eq. cbn [fst snd]. destruct (intab a); apply IH; auto.
  - apply dict_set_NoDup; auto.
  - intros k0. rewrite dict_set_keys. destruct (mem_str (pext a) (map fst D0)); auto.
    intros Hin. apply in_app_or in Hin as [Hin|[<-|[]]]; auto. apply lower_idem.
Qed.
End CTI.

(** ---- the saved package: payloads, content types, relationships ---- *)

Lemma rels_uri_part x : part_name x -> rels_uri x = Ok (rels_item_name x).
Proof.
  intros (P & HP & Hne & -> & _). destruct (rev_cons_exists P Hne) as (d & f & ->).
  apply Forall_app in HP as [Hd Hf]. inversion Hf; subst.
  unfold rels_item_name. rewrite rels_uri_render; auto.
Qed.

Lemma rels_uri_root_ok : rels_uri root = Ok (rels_item_name root).
Proof. reflexivity. Qed.

Lemma resolve_rel_ref src t : (src = root \/ part_name src) -> part_name t ->
  resolve (baseURI src) (rel_ref t (baseURI src)) = t.
Proof.
  intros Hs (Q & HQ & _ & -> & _).
  assert (exists P, wf_name P /\ src = render P) as (P & HP & ->).
  { destruct Hs as [->|(P & HP & _ & -> & _)]; [exists []; split; [constructor|reflexivity]|eauto]. }
  pose proof (roundtrip P Q HP HQ) as H. unfold rel_ref, resolve.
  destruct (relative_ref (render Q) (baseURI (render P))) as [ref|e]; simpl in H; [|discriminate].
  rewrite H. reflexivity.
Qed.

Section SaveContent.
Context {blob : Type}.
Variable E : env blob.
Variable p : phys blob.
Hypothesis Hwf : wf E p.
Variable cb : blob.
Variable c : cts.
Hypothesis Hcb : lookup ct_uri p = Some cb.
Hypothesis Hc : dec_ct E cb = Some c.
Hypothesis Hcodec : codec_ok E.

Notation k := (spec_pkg E p c).
Notation names := (iter_part_names (spec_pkg E p c)).

Lemma wf_ct_c x : reachable E p x -> x <> root ->
  exists ct b, ct_lookup c x = Ok ct /\ lookup x p = Some b /\
               (is_xml_ct E ct = true -> exists b', reser E b = Some b').
Proof.
  destruct (wf_ct E p Hwf) as (cb' & c' & Hcb' & Hc' & H). rewrite Hcb in Hcb'. inversion Hcb'; subst cb'.
  rewrite Hc in Hc'. inversion Hc'; subst c'. exact (H x).
Qed.

Lemma ct_in_c x : ct_in E p x = ct_lookup c x.
Proof. unfold ct_in. rewrite Hcb, Hc. reflexivity. Qed.

Lemma names_reach x : In x names <-> (reachable E p x /\ x <> root).
Proof. apply (proj1 (iter_part_names_spec E p Hwf c)). Qed.

Lemma in_save_part q : In q names -> In (q, blob_or E p c q) (save E k).
Proof.
  intros Hq. unfold save. right; right. rewrite (iter_parts_spec E p Hwf c).
  apply in_flat_map. exists (spec_part E p c q). split; [apply in_map; auto|]. left. reflexivity.
Qed.

Lemma in_save_rels q : In q names -> rels_or_nil E p q <> [] ->
  In (rels_item_name q, enc_rels E (out_rels q (map (conv_rel q) (rels_or_nil E p q)))) (save E k).
Proof.
  intros Hq Hne. unfold save. right; right. rewrite (iter_parts_spec E p Hwf c).
  apply in_flat_map. exists (spec_part E p c q). split; [apply in_map; auto|].
  unfold part_members. simpl. destruct (rels_or_nil E p q) as [|r rs]; [congruence|].
  right. left. reflexivity.
Qed.

Lemma lookup_save_part q : In q names -> lookup q (save E k) = Some (blob_or E p c q).
Proof.
  intros Hq. apply lookup_NoDup_In; [apply save_names_NoDup; auto|apply in_save_part; auto].
Qed.

Lemma lookup_save_payload q ct b : reachable E p q -> q <> root -> ct_lookup c q = Ok ct ->
  lookup q p = Some b ->
  lookup q (save E k) = (if is_xml_ct E ct then reser E b else Some b).
Proof.
  intros Hr Hn Hct Hb. rewrite lookup_save_part by (apply names_reach; auto).
  unfold blob_or, ct_or. rewrite Hb, Hct.
  destruct (wf_ct_c q Hr Hn) as (ct' & b' & Hct' & Hb' & Hx). rewrite Hct in Hct'. inversion Hct'; subst ct'.
  rewrite Hb in Hb'. inversion Hb'; subst b'.
  destruct (is_xml_ct E ct); auto. destruct (Hx eq_refl) as (b2 & ->). reflexivity.
Qed.

(** relationships of a source, read back from the saved package *)
Lemma rels_for_save src : (src = root \/ In src names) ->
  rels_for E (save E k) src = Some (out_rels src (map (conv_rel src) (rels_or_nil E p src))).
Proof.
  destruct Hcodec as (Hdr & _ & _). intros [->|Hs].
  - unfold rels_for. rewrite rels_uri_root_ok. unfold save. cbn [lookup].
    assert (Hne : str_eqb ct_uri (rels_item_name root) = false) by reflexivity.
    rewrite Hne, str_eqb_refl. apply Hdr.
  - pose proof (iter_name_part_name E p Hwf c src Hs) as Hpn.
    unfold rels_for. rewrite (rels_uri_part src Hpn).
    destruct (rels_or_nil E p src) as [|r rs] eqn:Er.
    + assert (Hnone : lookup (rels_item_name src) (save E k) = None).
      { apply lookup_None. intros Hin. apply (save_names_spec E p Hwf c) in Hin as [H|[H|(x & Hx & Hne & [H|[H Hnn]])]].
        - apply ct_uri_not_shaped. rewrite <- H. apply rels_item_shaped; auto.
        - apply rels_item_not_root in H; auto.
        - apply (part_name_not_shaped x); [apply (wf_part_name E p Hwf); auto|].
          rewrite <- H. apply rels_item_shaped; auto.
        - apply rels_item_inj in H; auto; [subst x; congruence|apply (wf_part_name E p Hwf); auto]. }
      rewrite Hnone. reflexivity.
    + rewrite (lookup_NoDup_In (rels_item_name src)
                 (enc_rels E (out_rels src (map (conv_rel src) (r :: rs))))).
      * apply Hdr.
      * apply save_names_NoDup; auto.
      * rewrite <- Er. apply in_save_rels; auto. congruence.
Qed.

Lemma rel_sem_roundtrip src r : (src = root \/ In src names) ->
  In r (rels_or_nil E p src) ->
  rel_sem src (out_rel src (conv_rel src r)) = rel_sem src r.
Proof.
  intros Hs Hin.
  assert (Hr : reachable E p src).
  { destruct Hs as [->|Hs]; [apply r0|apply names_reach in Hs; tauto]. }
  destruct (wf_rels E p Hwf src Hr) as (rs & Hrs & _ & H).
  rewrite (rels_or_nil_eq E p _ _ Hrs) in Hin. destruct (H r Hin) as [Hm Hnr].
  unfold rel_sem, out_rel, conv_rel. cbn [l_ext l_id l_type l_target].
  destruct (is_ext r) eqn:Ee; cbn [r_id r_type r_target r_mode is_ext]; auto.
  rewrite resolve_rel_ref; auto.
  - destruct Hs as [->|Hs]; auto. right. eapply iter_name_part_name; eauto.
  - apply (wf_part_name E p Hwf); auto.
    eapply r1; [exact Hr|]. rewrite (succs_rels E p _ _ Hrs). apply int_target_in; auto.
Qed.

Lemma rels_preserved src : (src = root \/ In src names) ->
  exists rs rs', rels_for E p src = Some rs /\ rels_for E (save E k) src = Some rs' /\
                 Permutation (map (rel_sem src) rs) (map (rel_sem src) rs').
Proof.
  intros Hs.
  assert (Hr : reachable E p src).
  { destruct Hs as [->|Hs']; [apply r0|apply names_reach in Hs'; tauto]. }
  destruct (wf_rels E p Hwf src Hr) as (rs & Hrs & _).
  exists rs, (out_rels src (map (conv_rel src) rs)). split; auto. split.
  - rewrite rels_for_save by auto. rewrite (rels_or_nil_eq E p _ _ Hrs). reflexivity.
  - unfold out_rels. rewrite map_map.
    eapply perm_trans; [|apply Permutation_map, Permutation_sym, sort_by_perm].
    rewrite map_map. apply Permutation_refl'. apply map_ext_in. intros r Hin. symmetry.
    apply rel_sem_roundtrip; auto. rewrite (rels_or_nil_eq E p _ _ Hrs). auto.
Qed.
End SaveContent.

Section SaveTypes.
Context {blob : Type}.
Variable E : env blob.
Variable p : phys blob.
Hypothesis Hwf : wf E p.
Variable cb : blob.
Variable c : cts.
Hypothesis Hcb : lookup ct_uri p = Some cb.
Hypothesis Hc : dec_ct E cb = Some c.
Hypothesis Henv : env_ok E.
Hypothesis Hnc : no_default_clash E p.

Notation k := (spec_pkg E p c).
Notation names := (iter_part_names (spec_pkg E p c)).
Notation PL := (map (spec_part E p c) (iter_part_names (spec_pkg E p c))).

Lemma PL_names : map p_name PL = names.
Proof. rewrite map_map. simpl. apply map_id. Qed.

Lemma in_PL pt : In pt PL -> exists x, In x names /\ pt = spec_part E p c x.
Proof. intros H. apply in_map_iff in H as (x & <- & Hx). eauto. Qed.

Lemma ct_or_ok x : In x names -> ct_lookup c x = Ok (ct_or c x).
Proof.
  intros Hx. apply (names_reach E p Hwf c) in Hx as [Hr Hn].
  destruct (wf_ct_c E p Hwf cb c Hcb Hc x Hr Hn) as (ct & b & Hct & _). unfold ct_or. rewrite Hct. auto.
Qed.

Lemma clash_free x y : In x names -> In y names ->
  pext (spec_part E p c x) = pext (spec_part E p c y) ->
  intab E (spec_part E p c x) = true -> intab E (spec_part E p c y) = true ->
  ct_or c x = ct_or c y.
Proof.
  intros Hx Hy He Hix Hiy.
  pose proof (ct_or_ok x Hx) as Cx. pose proof (ct_or_ok y Hy) as Cy.
  apply (names_reach E p Hwf c) in Hx as [Hrx Hnx]. apply (names_reach E p Hwf c) in Hy as [Hry Hny].
  apply (Hnc x y); auto; rewrite (ct_in_c E p cb c Hcb Hc); auto.
Qed.

Lemma ct_after q : In q names ->
  ct_lookup (content_types_item E PL) q = Ok (ct_or c q).
Proof.
  intros Hq. unfold content_types_item, defaults_and_overrides.
  destruct (fold_left (cti_step E) PL (initdefs E, [])) as [D O] eqn:EDO.
  assert (HO : O = map (fun pt => (p_name pt, p_ct pt)) (filter (fun pt => negb (intab E pt)) PL)).
  { change O with (snd (D, O)). rewrite <- EDO. rewrite cti_overrides; auto.
    simpl. rewrite PL_names. apply (proj2 (iter_part_names_spec E p Hwf c)). }
  assert (HD : D = fst (fold_left (cti_step E) PL (initdefs E, []))) by (rewrite EDO; auto).
  destruct Henv as [Hi1 Hi2].
  destruct (cti_defaults_keys E PL (initdefs E) []) as [HDnd HDlow]; auto.
  { intros k0 Hk. apply in_map_iff in Hk as (kv & <- & Hkv). auto. }
  rewrite <- HD in HDnd, HDlow.
  assert (HOkeys : forall n, In n (map fst O) -> In n names).
  { intros n Hn. rewrite HO in Hn. rewrite map_map in Hn. simpl in Hn.
    apply in_map_iff in Hn as (pt & <- & Hpt). apply filter_In in Hpt as [Hpt _].
    apply in_PL in Hpt as (x & Hx & ->). exact Hx. }
  assert (HOnd : NoDup (map fst O)).
  { rewrite HO, map_map. simpl.
    assert (Hnd : NoDup (map p_name PL)) by (rewrite PL_names; apply (proj2 (iter_part_names_spec E p Hwf c))).
    revert Hnd. generalize PL. intros l. induction l as [|a l IH]; simpl; intros Hnd; [constructor|].
    inversion Hnd; subst. destruct (negb (intab E a)); simpl; auto. constructor; auto.
    intros Hin. apply H1. apply in_map_iff in Hin as (pt & He & Hpt). apply filter_In in Hpt as [Hpt _].
    rewrite <- He. apply in_map; auto. }
  unfold ct_lookup. cbn [fst snd].
  assert (Step1 : lookup (lower q) (lower_keys (sort_by pair_leb O)) = lookup q O).
  { rewrite lookup_lower_keys.
    - apply lookup_sort; auto.
    - intros k1 k2 H1 H2 He.
      assert (Hall : forall n, In n (q :: map fst (sort_by pair_leb O)) -> reachable E p n).
      { intros n [<-|Hn]; [apply (names_reach E p Hwf c) in Hq; tauto|].
        apply (Permutation_in n (Permutation_map fst (sort_by_perm pair_leb O))) in Hn.
        apply HOkeys in Hn. apply (names_reach E p Hwf c) in Hn; tauto. }
      apply (wf_case E p Hwf); auto.
    - eapply Permutation_NoDup; [apply Permutation_map, Permutation_sym, sort_by_perm|auto]. }
  rewrite Step1.
  destruct (intab E (spec_part E p c q)) eqn:Eq.
  - (* declared through a Default *)
    assert (HnO : lookup q O = None).
    { apply lookup_None. intros Hin. rewrite HO, map_map in Hin. simpl in Hin.
      apply in_map_iff in Hin as (pt & He & Hpt). apply filter_In in Hpt as [Hpt Hni].
      apply in_PL in Hpt as (x & Hx & ->). simpl in He. subst x. rewrite Eq in Hni. discriminate. }
    rewrite HnO.
    assert (Hsd : lower_keys (sort_by pair_leb D) = sort_by pair_leb D).
    { apply lower_keys_lowered.
      - eapply Permutation_NoDup; [apply Permutation_map, Permutation_sym, sort_by_perm|auto].
      - intros k0 Hk. apply HDlow.
        exact (Permutation_in k0 (Permutation_map fst (sort_by_perm pair_leb D)) Hk). }
    rewrite Hsd, lookup_sort by auto.
    change (lower (ext q)) with (pext (spec_part E p c q)).
    assert (HinPL : In (spec_part E p c q) PL) by (apply in_map; auto).
    destruct (cti_defaults_key E PL (initdefs E) [] _ HinPL Eq) as (v & Hv).
    rewrite <- HD in Hv. rewrite Hv.
    rewrite HD in Hv. apply cti_defaults_val in Hv as [(pt & Hpt & Hi & He & Hct)|[_ Hno]].
    + apply in_PL in Hpt as (x & Hx & ->). rewrite <- Hct. simpl. f_equal.
      apply clash_free; auto.
    + exfalso. apply (Hno _ HinPL Eq). reflexivity.
  - (* declared through an Override *)
    rewrite (lookup_NoDup_In q (ct_or c q)); auto.
    rewrite HO. apply in_map_iff. exists (spec_part E p c q). split; auto.
    apply filter_In. split; [apply in_map; auto|]. rewrite Eq. reflexivity.
Qed.
End SaveTypes.

(** the Default rule admits one content type per extension, so two parts can never clash *)
Lemma in_table_unique tbl e a b : in_table tbl e a = true -> in_table tbl e b = true -> a = b.
Proof.
  unfold in_table. destruct (ext_types tbl e) as [|t [|t2 l]]; try discriminate.
  intros Ha Hb. apply str_eqb_eq in Ha, Hb. congruence.
Qed.

Lemma no_default_clash_always {blob} (E : env blob) p : no_default_clash E p.
Proof.
  intros x y cx cy _ _ _ _ _ _ He Tx Ty. rewrite He in Tx. eapply in_table_unique; eauto.
Qed.

Lemma c01_payload_type {blob} (E : env blob) p :
  wf E p -> codec_ok E -> env_ok E ->
  exists k, load E p = Ok k /\
    forall q ct b, reachable E p q -> q <> root -> ct_in E p q = Ok ct -> lookup q p = Some b ->
      ct_in E (save E k) q = Ok ct /\
      lookup q (save E k) = (if is_xml_ct E ct then reser E b else Some b).
Proof.
  intros Hwf Hcodec Henv. pose proof (no_default_clash_always E p) as Hnc.
  destruct (load_wf E p Hwf) as (cb & c & Hcb & Hc & Hl).
  exists (spec_pkg E p c). split; auto. intros q ct b Hr Hn Hct Hb.
  rewrite (ct_in_c E p cb c Hcb Hc) in Hct. split.
  - unfold ct_in, save. cbn [lookup]. rewrite str_eqb_refl.
    destruct Hcodec as (_ & Hdc & _). rewrite Hdc.
    rewrite (iter_parts_spec E p Hwf c), (ct_after E p Hwf cb c Hcb Hc Henv Hnc q).
    + unfold ct_or. rewrite Hct. reflexivity.
    + apply (names_reach E p Hwf c); auto.
  - apply (lookup_save_payload E p Hwf cb c Hcb Hc); auto.
Qed.

Lemma c01_rels {blob} (E : env blob) p : wf E p -> codec_ok E ->
  exists k, load E p = Ok k /\
    forall src, reachable E p src ->
      exists rs rs', rels_for E p src = Some rs /\ rels_for E (save E k) src = Some rs' /\
                     Permutation (map (rel_sem src) rs) (map (rel_sem src) rs').
Proof.
  intros Hwf Hcodec. destruct (load_wf E p Hwf) as (cb & c & Hcb & Hc & Hl).
  exists (spec_pkg E p c). split; auto. intros src Hr.
  apply (rels_preserved E p Hwf c Hcodec).
  destruct (str_eq_dec src root); auto. right. apply (names_reach E p Hwf c); auto.
Qed.

(** ---- soundness of the decidable side conditions ---- *)

Lemma reach_in_closed g r L : In r L -> (forall x, In x L -> forall y, In y (g x) -> In y L) ->
  forall x, reach g r x -> In x L.
Proof. intros Hr Hc x H. induction H; eauto. Qed.

Lemma nodupb_NoDup l : nodupb l = true -> NoDup l.
Proof.
  induction l as [|x l IH]; simpl; [constructor|]. intros H.
  apply andb_true_iff in H as [H1 H2]. apply negb_true_iff in H1. apply mem_str_nIn in H1.
  constructor; auto.
Qed.

Lemma NoDup_map_inj {A B} (f : A -> B) l : NoDup (map f l) ->
  forall x y, In x l -> In y l -> f x = f y -> x = y.
Proof.
  induction l as [|a l IH]; simpl; [tauto|]. intros Hnd x y Hx Hy He. inversion Hnd; subst.
  destruct Hx as [<-|Hx], Hy as [<-|Hy]; auto.
  - exfalso. apply H1. rewrite He. apply in_map; auto.
  - exfalso. apply H1. rewrite <- He. apply in_map; auto.
Qed.

Lemma part_nameb_sound x : part_nameb x = true -> part_name x.
Proof.
  destruct x as [|c0 r]; [discriminate|]. unfold part_nameb.
  intros H. apply andb_true_iff in H as [H Hshape]. apply andb_true_iff in H as [H Hct].
  apply andb_true_iff in H as [Hs Hsegs].
  unfold is_slash in Hs. apply N.eqb_eq in Hs. subst c0.
  exists (split_on c_slash r). repeat split.
  - apply forallb_true_iff. exact Hsegs.
  - apply split_on_nonnil.
  - unfold render. f_equal. symmetry. apply (join_split c_slash r).
  - apply negb_true_iff in Hct. apply str_eqb_neq in Hct. exact Hct.
  - intros (d & f & He). rewrite He in Hshape. rewrite rev_app_distr in Hshape. simpl in Hshape.
    try rewrite str_eqb_refl in Hshape. discriminate.
Qed.

Lemma wfb_sound {blob} (E : env blob) p : wfb E p = true -> wf E p.
Proof.
  unfold wfb. set (L := xml_rels_names E p).
  intros H. apply andb_true_iff in H as [H Hcase]. apply andb_true_iff in H as [H Hpn].
  apply andb_true_iff in H as [H Hrels]. apply andb_true_iff in H as [H Hct].
  apply andb_true_iff in H as [Hroot Hclosed].
  assert (HL : forall x, reachable E p x -> In x L).
  { apply reach_in_closed; [apply mem_str_In; auto|].
    intros x Hx y Hy. rewrite forallb_forall in Hclosed. specialize (Hclosed x Hx).
    rewrite forallb_forall in Hclosed. apply mem_str_In. auto. }
  rewrite forallb_forall in Hrels, Hpn.
  split; [|split; [|split]].
  - destruct (lookup ct_uri p) as [cb|] eqn:Ecb; [|discriminate]. destruct (dec_ct E cb) as [c|] eqn:Ec; [|discriminate].
    exists cb, c. split; [auto|split; [auto|]]. intros x Hx Hn. rewrite forallb_forall in Hct.
    specialize (Hct x (HL x Hx)). apply str_eqb_neq in Hn. rewrite Hn in Hct. simpl in Hct.
    destruct (ct_lookup c x) as [ct|]; [|discriminate]. destruct (lookup x p) as [b|]; [|discriminate].
    exists ct, b. split; [auto|split; [auto|]]. intros Hx'. rewrite Hx' in Hct. simpl in Hct.
    destruct (reser E b) as [b'|]; [eauto|discriminate].
  - intros x Hx. specialize (Hrels x (HL x Hx)). destruct (rels_for E p x) as [rs|]; [|discriminate].
    apply andb_true_iff in Hrels as [H1 H2]. exists rs. split; [auto|split; [apply nodupb_NoDup; auto|]].
    intros r Hr. rewrite forallb_forall in H2. specialize (H2 r Hr). apply andb_true_iff in H2 as [H2 H3].
    split.
    + intros Hm. rewrite Hm in H2. discriminate.
    + intros He. rewrite He in H3. simpl in H3. apply negb_true_iff in H3. apply str_eqb_neq; auto.
  - intros x Hx Hn. specialize (Hpn x (HL x Hx)). apply str_eqb_neq in Hn. rewrite Hn in Hpn.
    apply part_nameb_sound; auto.
  - intros x y Hx Hy He. apply nodupb_NoDup in Hcase.
    apply (NoDup_map_inj lower L Hcase); auto.
Qed.

Lemma no_default_clashb_sound {blob} (E : env blob) p :
  wfb E p = true -> no_default_clashb E p = true -> no_default_clash E p.
Proof.
  intros Hwfb H x y cx cy Hx Hy _ _ Cx Cy He Tx Ty.
  assert (HL : forall z, reachable E p z -> In z (xml_rels_names E p)).
  { apply (proj1 (names_spec E p (wfb_sound E p Hwfb))). }
  unfold no_default_clashb in H. rewrite forallb_forall in H. specialize (H x (HL x Hx)).
  rewrite forallb_forall in H. specialize (H y (HL y Hy)). rewrite Cx, Cy in H.
  rewrite Tx, Ty, He, str_eqb_refl in H. simpl in H. apply str_eqb_eq; auto.
Qed.

(** ---- the order used by sorted() ---- *)

Lemma str_ltb_irrefl a : str_ltb a a = false.
Proof. induction a as [|x a IH]; simpl; auto. rewrite N.ltb_irrefl, N.eqb_refl. auto. Qed.

Lemma str_ltb_trans a : forall b c, str_ltb a b = true -> str_ltb b c = true -> str_ltb a c = true.
Proof.
  induction a as [|x a IH]; intros [|y b] [|z c]; simpl; try discriminate; auto.
  destruct (N.ltb_spec x y) as [Hxy|Hxy].
  - intros _. destruct (N.ltb_spec y z) as [Hyz|Hyz].
    + intros _. destruct (N.ltb_spec x z); auto. lia.
    + destruct (N.eqb_spec y z) as [->|Hne]; [|discriminate]. intros _.
      destruct (N.ltb_spec x z); auto. lia.
  - destruct (N.eqb_spec x y) as [->|Hne]; [|discriminate]. intros Hab.
    destruct (N.ltb_spec y z) as [Hyz|Hyz]; auto.
    destruct (N.eqb_spec y z) as [->|Hne]; [|discriminate]. apply IH; auto.
Qed.

Lemma str_ltb_tricho a : forall b, str_ltb a b = false -> str_ltb b a = false -> a = b.
Proof.
  induction a as [|x a IH]; intros [|y b]; simpl; try discriminate; auto.
  destruct (N.ltb_spec x y) as [Hxy|Hxy]; [discriminate|].
  destruct (N.ltb_spec y x) as [Hyx|Hyx]; [destruct (N.eqb_spec x y); [lia|discriminate]|].
  assert (x = y) by lia. subst y. rewrite N.eqb_refl. intros H1 H2. f_equal. apply IH; auto.
Qed.

Lemma str_ltb_asym a b : str_ltb a b = true -> str_ltb b a = false.
Proof.
  intros H. destruct (str_ltb b a) eqn:E; auto.
  pose proof (str_ltb_trans _ _ _ H E) as Hc. rewrite str_ltb_irrefl in Hc. discriminate.
Qed.

Lemma str_leb_total a b : str_leb a b = false -> str_leb b a = true.
Proof. unfold str_leb. intros H. apply negb_false_iff in H. rewrite (str_ltb_asym _ _ H). auto. Qed.

Lemma str_leb_refl a : str_leb a a = true.
Proof. unfold str_leb. rewrite str_ltb_irrefl. auto. Qed.

Lemma str_leb_antisym a b : str_leb a b = true -> str_leb b a = true -> a = b.
Proof. unfold str_leb. intros H1 H2. apply negb_true_iff in H1, H2. apply str_ltb_tricho; auto. Qed.

Lemma str_leb_trans a b c : str_leb a b = true -> str_leb b c = true -> str_leb a c = true.
Proof.
  unfold str_leb. intros H1 H2. apply negb_true_iff in H1, H2. apply negb_true_iff.
  destruct (str_ltb c a) eqn:Eca; auto.
  destruct (str_ltb a b) eqn:Eab.
  - pose proof (str_ltb_trans _ _ _ Eca Eab). congruence.
  - assert (a = b) by (apply str_ltb_tricho; auto). subst. congruence.
Qed.

(** generic facts about insertion sort for a total relation *)
Section Sort.
Context {A : Type}.
Variable leb : A -> A -> bool.
Hypothesis leb_total : forall a b, leb a b = false -> leb b a = true.

Inductive lsorted : list A -> Prop :=
| ls_nil : lsorted []
| ls_one a : lsorted [a]
| ls_cons a b l : leb a b = true -> lsorted (b :: l) -> lsorted (a :: b :: l).

Lemma insert_lsorted x l : lsorted l -> lsorted (insert_by leb x l).
Proof.
  induction 1 as [|a|a b l Hab Hs IH]; simpl.
  - constructor.
  - destruct (leb x a) eqn:E.
    + constructor; auto. constructor.
    + constructor; [apply leb_total; auto|constructor].
  - destruct (leb x a) eqn:E.
    + constructor; auto. constructor; auto.
    + simpl in IH. destruct (leb x b) eqn:E2.
      * constructor; [apply leb_total; auto|]. constructor; auto.
      * constructor; auto.
Qed.

Lemma sort_lsorted l : lsorted (sort_by leb l).
Proof. induction l; simpl; [constructor|apply insert_lsorted; auto]. Qed.

Lemma sort_of_lsorted l : lsorted l -> sort_by leb l = l.
Proof.
  induction 1 as [|a|a b l Hab Hs IH]; simpl; auto.
  simpl in IH. rewrite IH. simpl. rewrite Hab. reflexivity.
Qed.

Lemma sort_idem l : sort_by leb (sort_by leb l) = sort_by leb l.
Proof. apply sort_of_lsorted, sort_lsorted. Qed.

Hypothesis leb_trans : forall a b c, leb a b = true -> leb b c = true -> leb a c = true.
Hypothesis leb_antisym : forall a b, leb a b = true -> leb b a = true -> a = b.

Lemma lsorted_head a l : lsorted (a :: l) -> forall b, In b l -> leb a b = true.
Proof.
  revert a. induction l as [|c l IH]; intros a H b Hb; [destruct Hb|].
  inversion H; subst. destruct Hb as [<-|Hb]; auto. eapply leb_trans; [eassumption|]. apply IH; auto.
Qed.

Lemma lsorted_tail a l : lsorted (a :: l) -> lsorted l.
Proof. intros H. inversion H; subst; auto. constructor. Qed.

Lemma lsorted_perm_eq l1 : forall l2, lsorted l1 -> lsorted l2 -> Permutation l1 l2 ->
  (forall a, In a l1 -> leb a a = true) -> l1 = l2.
Proof.
  induction l1 as [|a l1 IH]; intros l2 H1 H2 HP Hr.
  - apply Permutation_nil in HP. auto.
  - destruct l2 as [|b l2]; [apply Permutation_sym, Permutation_nil in HP; discriminate|].
    assert (a = b).
    { assert (Ha : In a (b :: l2)) by (eapply Permutation_in; [exact HP|simpl; auto]).
      assert (Hb : In b (a :: l1)) by (eapply Permutation_in; [apply Permutation_sym, HP|simpl; auto]).
      destruct Ha as [->|Ha]; auto. destruct Hb as [->|Hb]; auto.
      apply leb_antisym; [eapply lsorted_head; eauto|eapply lsorted_head; eauto]. }
    subst b. f_equal. apply IH.
    + eapply lsorted_tail; eauto.
    + eapply lsorted_tail; eauto.
    + eapply Permutation_cons_inv; eauto.
    + intros; apply Hr; simpl; auto.
Qed.

Lemma sort_perm_eq l1 l2 : Permutation l1 l2 -> (forall a, leb a a = true) ->
  sort_by leb l1 = sort_by leb l2.
Proof.
  intros HP Hr. apply lsorted_perm_eq; auto using sort_lsorted.
  eapply perm_trans; [apply sort_by_perm|]. eapply perm_trans; [exact HP|apply Permutation_sym, sort_by_perm].
Qed.
End Sort.

Lemma pair_leb_total a b : pair_leb a b = false -> pair_leb b a = true.
Proof.
  unfold pair_leb. destruct (str_ltb (fst a) (fst b)) eqn:E1; [discriminate|].
  destruct (str_eqb_spec (fst a) (fst b)) as [He|Hne].
  - rewrite He, str_ltb_irrefl, str_eqb_refl. apply str_leb_total.
  - intros _. destruct (str_ltb (fst b) (fst a)) eqn:E2; auto.
    exfalso. apply Hne. apply str_ltb_tricho; auto.
Qed.

Lemma pair_leb_refl a : pair_leb a a = true.
Proof. unfold pair_leb. rewrite str_ltb_irrefl, str_eqb_refl. apply str_leb_refl. Qed.

Lemma pair_leb_antisym a b : pair_leb a b = true -> pair_leb b a = true -> a = b.
Proof.
  unfold pair_leb. destruct a as [a1 a2], b as [b1 b2]. simpl.
  destruct (str_ltb a1 b1) eqn:E1.
  - rewrite (str_ltb_asym _ _ E1). destruct (str_eqb_spec b1 a1) as [->|Hn]; [|discriminate].
    rewrite str_ltb_irrefl in E1. discriminate.
  - destruct (str_eqb_spec a1 b1) as [->|Hn]; [|discriminate].
    rewrite str_ltb_irrefl, str_eqb_refl. intros H1 H2. f_equal. apply str_leb_antisym; auto.
Qed.

Lemma pair_leb_trans a b c : pair_leb a b = true -> pair_leb b c = true -> pair_leb a c = true.
Proof.
  unfold pair_leb. destruct a as [a1 a2], b as [b1 b2], c as [c1 c2]. simpl.
  destruct (str_ltb a1 b1) eqn:E1.
  - intros _. destruct (str_ltb b1 c1) eqn:E2.
    + intros _. rewrite (str_ltb_trans _ _ _ E1 E2). auto.
    + destruct (str_eqb_spec b1 c1) as [->|Hn]; [|discriminate]. rewrite E1. auto.
  - destruct (str_eqb_spec a1 b1) as [->|Hn]; [|discriminate]. intros H1.
    destruct (str_ltb b1 c1) eqn:E2; auto.
    destruct (str_eqb_spec b1 c1) as [->|Hn]; [|discriminate]. intros H2.
    eapply str_leb_trans; eauto.
Qed.

Lemma rid_leb_total a b : rid_leb a b = false -> rid_leb b a = true.
Proof.
  unfold rid_leb. destruct (N.ltb_spec (rid_num a) (rid_num b)); [discriminate|].
  destruct (N.eqb_spec (rid_num a) (rid_num b)) as [He|Hne].
  - rewrite He, N.ltb_irrefl, N.eqb_refl. apply str_leb_total.
  - intros _. destruct (N.ltb_spec (rid_num b) (rid_num a)); auto. lia.
Qed.

(** ---- the content types item does not depend on the order of the parts ---- *)

Section CTIperm.
Context {blob : Type}.
Variable E : env blob.
Hypothesis Henv : env_ok E.

Definition nct (pt : part blob) : str * str := (p_name pt, p_ct pt).

Lemma cti_step_nct acc (a b : part blob) : nct a = nct b -> cti_step E acc a = cti_step E acc b.
Proof. unfold nct, cti_step. intros H. inversion H as [[H1 H2]]. rewrite H1, H2. reflexivity. Qed.

Lemma cti_cong (La Lb : list (part blob)) : map nct La = map nct Lb ->
  forall acc, fold_left (cti_step E) La acc = fold_left (cti_step E) Lb acc.
Proof.
  revert Lb. induction La as [|a La IH]; intros [|b Lb] H acc; try discriminate; auto.
  cbn [map] in H. injection H as H1 H2 H3. cbn [fold_left].
  assert (Hn : nct a = nct b) by (unfold nct; congruence).
  rewrite (cti_step_nct acc a b Hn). apply IH; auto.
Qed.

Definition clashfree (L : list (part blob)) : Prop :=
  forall a b, In a L -> In b L -> intab E a = true -> intab E b = true -> pext a = pext b -> p_ct a = p_ct b.

Lemma cti_defaults_sub La Lb key v :
  (forall pt, In pt La <-> In pt Lb) -> clashfree La ->
  lookup key (fst (fold_left (cti_step E) La (initdefs E, []))) = Some v ->
  lookup key (fst (fold_left (cti_step E) Lb (initdefs E, []))) = Some v.
Proof.
  intros Hiff Hcf H. apply cti_defaults_val in H as [(pt & Hpt & Hi & He & Hct)|[Hinit Hno]].
  - assert (Hb : In pt Lb) by (apply Hiff; auto).
    destruct (cti_defaults_key E Lb (initdefs E) [] pt Hb Hi) as (v' & Hv'). rewrite He in Hv'.
    rewrite Hv'. f_equal.
    apply cti_defaults_val in Hv' as [(pt' & Hpt' & Hi' & He' & Hct')|[_ Hno]].
    + rewrite <- Hct, <- Hct'. apply Hcf; auto; [apply Hiff; auto|congruence].
    + exfalso. apply (Hno pt Hb Hi He).
  - destruct (cti_defaults_mono E Lb (initdefs E) [] key (ex_intro _ v Hinit)) as (v' & Hv').
    rewrite Hv'. f_equal.
    apply cti_defaults_val in Hv' as [(pt' & Hpt' & Hi' & He' & Hct')|[Hinit' _]].
    + exfalso. apply (Hno pt'); auto. apply Hiff; auto.
    + congruence.
Qed.

Lemma NoDup_keys_pairs {V} (d : list (str * V)) : NoDup (map fst d) -> NoDup d.
Proof. apply NoDup_map_inv. Qed.

Lemma cti_perm La Lb : Permutation La Lb -> NoDup (map p_name La) -> clashfree La ->
  content_types_item E La = content_types_item E Lb.
Proof.
  intros HP Hnd Hcf. unfold content_types_item, defaults_and_overrides.
  destruct (fold_left (cti_step E) La (initdefs E, [])) as [Da Oa] eqn:Ea.
  destruct (fold_left (cti_step E) Lb (initdefs E, [])) as [Db Ob] eqn:Eb.
  assert (Hiff : forall pt, In pt La <-> In pt Lb).
  { intros pt; split; intros H; [eapply Permutation_in; eauto|eapply Permutation_in; [apply Permutation_sym|]; eauto]. }
  assert (Hndb : NoDup (map p_name Lb)) by (eapply Permutation_NoDup; [apply Permutation_map, HP|auto]).
  assert (Hcfb : clashfree Lb) by (intros a b Ha Hb; apply Hcf; apply Hiff; auto).
  destruct Henv as [Hi1 Hi2].
  assert (Hlow : forall k0, In k0 (map fst (initdefs E)) -> lower k0 = k0).
  { intros k0 Hk. apply in_map_iff in Hk as (kv & <- & Hkv). auto. }
  f_equal.
  - (* defaults *)
    apply (sort_perm_eq pair_leb pair_leb_total pair_leb_trans pair_leb_antisym); [|apply pair_leb_refl].
    destruct (cti_defaults_keys E La (initdefs E) [] Hi1 Hlow) as [Ka _].
    destruct (cti_defaults_keys E Lb (initdefs E) [] Hi1 Hlow) as [Kb _].
    rewrite Ea in Ka. rewrite Eb in Kb. simpl in Ka, Kb.
    apply NoDup_Permutation; auto using NoDup_keys_pairs.
    intros [key v]. split; intros H.
    + apply lookup_In. change Db with (fst (Db, Ob)). rewrite <- Eb.
      apply (cti_defaults_sub La Lb); auto. rewrite Ea. simpl. apply lookup_NoDup_In; auto.
    + apply lookup_In. change Da with (fst (Da, Oa)). rewrite <- Ea.
      apply (cti_defaults_sub Lb La); auto; [intros; symmetry; apply Hiff|].
      rewrite Eb. simpl. apply lookup_NoDup_In; auto.
  - (* overrides *)
    apply (sort_perm_eq pair_leb pair_leb_total pair_leb_trans pair_leb_antisym); [|apply pair_leb_refl].
    change Oa with (snd (Da, Oa)). change Ob with (snd (Db, Ob)). rewrite <- Ea, <- Eb.
    rewrite !cti_overrides by auto. simpl.
    apply Permutation_map. clear - HP. induction HP; simpl; auto.
    + destruct (negb (intab E x)); auto.
    + destruct (negb (intab E x)), (negb (intab E y)); auto. apply perm_swap.
    + eapply perm_trans; eauto.
Qed.
End CTIperm.

(** ---- opening and saving the saved package again ---- *)

Lemma int_targets_sem x R y :
  In y (int_targets x R) <-> exists i t, In (i, t, false, y) (map (rel_sem x) R).
Proof.
  unfold int_targets. rewrite in_map_iff. split.
  - intros (r & <- & Hr). apply filter_In in Hr as [Hr He]. apply negb_true_iff in He.
    exists (r_id r), (r_type r). apply in_map_iff. exists r. split; auto.
    unfold rel_sem. rewrite He. reflexivity.
  - intros (i & t & H). apply in_map_iff in H as (r & Hs & Hr). unfold rel_sem in Hs.
    destruct (is_ext r) eqn:Ee; inversion Hs; subst. exists r. split; auto.
    apply filter_In. split; auto. rewrite Ee. reflexivity.
Qed.

Lemma out_rel_mode src l : r_mode (out_rel src l) <> MOther.
Proof. unfold out_rel. destruct (l_ext l); simpl; discriminate. Qed.

Lemma out_rel_id src l : r_id (out_rel src l) = l_id l.
Proof. unfold out_rel. destruct (l_ext l); reflexivity. Qed.

Lemma out_rel_ext src l : is_ext (out_rel src l) = l_ext l.
Proof. unfold out_rel, is_ext. destruct (l_ext l); reflexivity. Qed.

Section Idem.
Context {blob : Type}.
Variable E : env blob.
Variable p : phys blob.
Hypothesis Hwf : wf E p.
Variable cb : blob.
Variable c : cts.
Hypothesis Hcb : lookup ct_uri p = Some cb.
Hypothesis Hc : dec_ct E cb = Some c.
Hypothesis Hcodec : codec_ok E.
Hypothesis Henv : env_ok E.
Hypothesis Hnc : no_default_clash E p.

Notation k := (spec_pkg E p c).
Notation names := (iter_part_names (spec_pkg E p c)).
Notation PL := (map (spec_part E p c) (iter_part_names (spec_pkg E p c))).
Notation s1 := (save E (spec_pkg E p c)).
Notation c1 := (content_types_item E (map (spec_part E p c) (iter_part_names (spec_pkg E p c)))).

Definition src_ok (x : str) : Prop := x = root \/ In x names.

Lemma src_ok_reach x : src_ok x <-> reachable E p x.
Proof.
  unfold src_ok. rewrite (names_reach E p Hwf c). split.
  - intros [->|[H _]]; auto. apply r0.
  - intros H. destruct (str_eq_dec x root); auto.
Qed.

Lemma rels_s1 x : src_ok x ->
  rels_for E s1 x = Some (out_rels x (map (conv_rel x) (rels_or_nil E p x))).
Proof. apply (rels_for_save E p Hwf c Hcodec). Qed.

Lemma succs_s1 x : src_ok x -> forall y, In y (succs E s1 x) <-> In y (succs E p x).
Proof.
  intros Hx y. destruct (rels_preserved E p Hwf c Hcodec x Hx) as (rs & rs' & H1 & H2 & HP).
  rewrite (succs_rels E s1 _ _ H2), (succs_rels E p _ _ H1), !int_targets_sem.
  split; intros (i & t & H); exists i, t.
  - eapply Permutation_in; [apply Permutation_sym, HP|auto].
  - eapply Permutation_in; [apply HP|auto].
Qed.

Lemma reach_s1 x : reachable E s1 x <-> reachable E p x.
Proof.
  split; intros H.
  - induction H as [|x' y Hr IH Hy]; [apply r0|].
    eapply r1; [exact IH|]. apply succs_s1; auto. apply src_ok_reach; auto.
  - induction H as [|x' y Hr IH Hy]; [apply r0|].
    eapply r1; [exact IH|]. apply succs_s1; auto. apply src_ok_reach; auto.
Qed.

Lemma lookup_ct_s1 : lookup ct_uri s1 = Some (enc_ct E c1).
Proof. unfold save. cbn [lookup]. rewrite str_eqb_refl, (iter_parts_spec E p Hwf c). reflexivity. Qed.

Lemma ct1_lookup x : In x names -> ct_lookup c1 x = Ok (ct_or c x).
Proof. apply (ct_after E p Hwf cb c Hcb Hc Henv Hnc). Qed.

Lemma ct_or1 x : In x names -> ct_or c1 x = ct_or c x.
Proof. intros H. unfold ct_or at 1. rewrite ct1_lookup; auto. Qed.

Lemma blob_reser x : In x names -> is_xml_ct E (ct_or c x) = true ->
  reser E (blob_or E p c x) = Some (blob_or E p c x).
Proof.
  intros Hx Hxml. apply (names_reach E p Hwf c) in Hx as [Hr Hn].
  destruct (wf_ct_c E p Hwf cb c Hcb Hc x Hr Hn) as (ct & b & Hct & Hb & Hres).
  unfold blob_or. rewrite Hb, Hxml. unfold ct_or in Hxml. rewrite Hct in Hxml.
  destruct (Hres Hxml) as (b' & Hb'). rewrite Hb'. destruct Hcodec as (_ & _ & Hid). eapply Hid; eauto.
Qed.

Lemma conv_out_conv x r : src_ok x -> In r (rels_or_nil E p x) ->
  conv_rel x (out_rel x (conv_rel x r)) = conv_rel x r.
Proof.
  intros Hx Hin. pose proof (rel_sem_roundtrip E p Hwf c x r Hx Hin) as H.
  unfold rel_sem in H. unfold conv_rel at 1 3. injection H as H1 H2 H3 H4. congruence.
Qed.

Lemma lrel_leb_total (a b : lrel) :
  rid_leb (l_id a) (l_id b) = false -> rid_leb (l_id b) (l_id a) = true.
Proof. apply rid_leb_total. Qed.

Lemma out_rels_fix x : src_ok x ->
  out_rels x (map (conv_rel x) (out_rels x (map (conv_rel x) (rels_or_nil E p x))))
  = out_rels x (map (conv_rel x) (rels_or_nil E p x)).
Proof.
  intros Hx. set (L := map (conv_rel x) (rels_or_nil E p x)).
  unfold out_rels at 2. rewrite map_map.
  assert (Hm : map (fun l => conv_rel x (out_rel x l)) (sort_by (fun a b => rid_leb (l_id a) (l_id b)) L)
               = sort_by (fun a b => rid_leb (l_id a) (l_id b)) L).
  { rewrite <- (map_id (sort_by _ L)) at 2. apply map_ext_in. intros l Hl.
    eapply Permutation_in in Hl; [|apply sort_by_perm]. unfold L in Hl.
    apply in_map_iff in Hl as (r & <- & Hr). apply conv_out_conv; auto. }
  rewrite Hm. unfold out_rels. rewrite (sort_idem _ lrel_leb_total). reflexivity.
Qed.

Lemma wf_s1 : wf E s1.
Proof.
  destruct Hcodec as (Hdr & Hdc & Hid).
  split; [|split; [|split]].
  - exists (enc_ct E c1), c1. split; [apply lookup_ct_s1|]. split; [apply Hdc|].
    intros x Hx Hn. apply reach_s1 in Hx.
    assert (Hin : In x names) by (apply (names_reach E p Hwf c); auto).
    exists (ct_or c x), (blob_or E p c x). split; [apply ct1_lookup; auto|].
    split; [apply (lookup_save_part E p Hwf c); auto|].
    intros Hxml. exists (blob_or E p c x). apply blob_reser; auto.
  - intros x Hx. apply reach_s1 in Hx. pose proof Hx as Hs. apply src_ok_reach in Hs.
    destruct (wf_rels E p Hwf x Hx) as (rs & Hrs & Hnd & Hall).
    eexists. split; [apply rels_s1; auto|]. rewrite (rels_or_nil_eq E p _ _ Hrs). split.
    + unfold out_rels. rewrite map_map.
      rewrite (map_ext _ l_id) by (intros; apply out_rel_id).
      eapply Permutation_NoDup; [apply Permutation_map, Permutation_sym, sort_by_perm|].
      rewrite conv_rel_ids. auto.
    + intros r Hr. split; [unfold out_rels in Hr; apply in_map_iff in Hr as (l & <- & _); apply out_rel_mode|].
      intros He. unfold out_rels in Hr. apply in_map_iff in Hr as (l & <- & Hl).
      eapply Permutation_in in Hl; [|apply sort_by_perm]. apply in_map_iff in Hl as (r0' & <- & Hr0).
      destruct (Hall r0' Hr0) as [_ Hnr].
      assert (Hs0 : In r0' (rels_or_nil E p x)) by (rewrite (rels_or_nil_eq E p _ _ Hrs); auto).
      pose proof (rel_sem_roundtrip E p Hwf c x r0' Hs Hs0) as Hsem.
      unfold rel_sem in Hsem. rewrite He in Hsem. injection Hsem as H1 H2 H3 H4.
      rewrite <- H3 in H4. rewrite H4. apply Hnr. auto.
  - intros x Hx Hn. apply reach_s1 in Hx. apply (wf_part_name E p Hwf); auto.
  - intros x y Hx Hy. apply reach_s1 in Hx, Hy. apply (wf_case E p Hwf); auto.
Qed.

Notation k2 := (spec_pkg E s1 c1).
Notation names2 := (iter_part_names (spec_pkg E s1 c1)).

Lemma names2_iff x : In x names2 <-> In x names.
Proof. rewrite (names_reach E s1 wf_s1 c1), (names_reach E p Hwf c), reach_s1. tauto. Qed.

Lemma names2_perm : Permutation names2 names.
Proof.
  apply NoDup_Permutation.
  - apply (proj2 (iter_part_names_spec E s1 wf_s1 c1)).
  - apply (proj2 (iter_part_names_spec E p Hwf c)).
  - apply names2_iff.
Qed.

Lemma rels_or_nil_s1 x : src_ok x ->
  rels_or_nil E s1 x = out_rels x (map (conv_rel x) (rels_or_nil E p x)).
Proof. intros Hx. apply (rels_or_nil_eq E s1). apply rels_s1; auto. Qed.

Lemma out_rels_nil x L : out_rels x L = [] <-> L = [].
Proof.
  unfold out_rels. split; intros H.
  - apply (f_equal (@length _)) in H. rewrite map_length in H.
    rewrite (Permutation_length (sort_by_perm _ L)) in H. destruct L; [auto|discriminate].
  - subst. reflexivity.
Qed.

Lemma rels_nil_s1 x : src_ok x -> (rels_or_nil E s1 x = [] <-> rels_or_nil E p x = []).
Proof.
  intros Hx. rewrite rels_or_nil_s1 by auto. rewrite out_rels_nil.
  split; intros H; [destruct (rels_or_nil E p x); [auto|discriminate]|rewrite H; reflexivity].
Qed.

Lemma blob_or_s1 x : In x names -> blob_or E s1 c1 x = blob_or E p c x.
Proof.
  intros Hx. unfold blob_or at 1. rewrite (lookup_save_part E p Hwf c x Hx), (ct_or1 x Hx).
  destruct (is_xml_ct E (ct_or c x)) eqn:Ex; auto. rewrite blob_reser; auto.
Qed.

Lemma cti_s2 : content_types_item E (map (spec_part E s1 c1) names2) = c1.
Proof.
  assert (Hcong : content_types_item E (map (spec_part E s1 c1) names2)
                  = content_types_item E (map (spec_part E p c) names2)).
  { unfold content_types_item, defaults_and_overrides. rewrite (cti_cong E _ (map (spec_part E p c) names2)); auto.
    rewrite !map_map. apply map_ext_in. intros x Hx. unfold nct. simpl. f_equal.
    apply ct_or1. apply names2_iff; auto. }
  rewrite Hcong. apply (cti_perm E Henv).
  - apply Permutation_map, names2_perm.
  - rewrite map_map. simpl. rewrite map_id. apply (proj2 (iter_part_names_spec E s1 wf_s1 c1)).
  - intros a b Ha Hb Hia Hib He.
    apply in_map_iff in Ha as (x & <- & Hx). apply in_map_iff in Hb as (y & <- & Hy). simpl.
    apply names2_iff in Hx, Hy. apply (clash_free E p Hwf cb c Hcb Hc Hnc); auto.
Qed.

Lemma lookup_save_rootrels {B} (E' : env B) (k' : pkg B) :
  lookup (rels_item_name root) (save E' k') = Some (enc_rels E' (out_rels root (k_rels k'))).
Proof.
  unfold save. cbn [lookup].
  assert (Hne : str_eqb ct_uri (rels_item_name root) = false) by reflexivity.
  rewrite Hne, str_eqb_refl. reflexivity.
Qed.

Lemma lookup_save_ct {B} (E' : env B) (k' : pkg B) :
  lookup ct_uri (save E' k') = Some (enc_ct E' (content_types_item E' (iter_parts k'))).
Proof. unfold save. cbn [lookup]. rewrite str_eqb_refl. reflexivity. Qed.

Lemma idem_names n : In n (map fst (save E k2)) <-> In n (map fst s1).
Proof.
  rewrite (save_names_spec E s1 wf_s1 c1), (save_names_spec E p Hwf c).
  split; (intros [H|[H|(x & Hx & Hn & H)]]; [auto|auto|right; right; exists x]).
  - apply reach_s1 in Hx. split; [auto|split; [auto|]]. destruct H as [H|[H H']]; auto. right. split; auto.
    intros Hnil. apply H'. apply rels_nil_s1; auto. apply src_ok_reach; auto.
  - split; [apply reach_s1; auto|split; [auto|]]. destruct H as [H|[H H']]; auto. right. split; auto.
    intros Hnil. apply H'. apply rels_nil_s1; auto. apply src_ok_reach; auto.
Qed.

Lemma idem_lookup n : lookup n (save E k2) = lookup n s1.
Proof.
  destruct (in_dec str_eq_dec n (map fst s1)) as [Hin|Hnin].
  - apply (save_names_spec E p Hwf c) in Hin as [->|[->|(x & Hx & Hn & [->|[-> Hne]])]].
    + rewrite lookup_save_ct, lookup_ct_s1, (iter_parts_spec E s1 wf_s1 c1), cti_s2. reflexivity.
    + rewrite !lookup_save_rootrels. simpl. rewrite rels_or_nil_s1 by (left; auto).
      rewrite out_rels_fix by (left; auto). reflexivity.
    + assert (Hin : In x names) by (apply (names_reach E p Hwf c); auto).
      rewrite (lookup_save_part E s1 wf_s1 c1) by (apply names2_iff; auto).
      rewrite (lookup_save_part E p Hwf c) by auto. f_equal. apply blob_or_s1; auto.
    + assert (Hin : In x names) by (apply (names_reach E p Hwf c); auto).
      assert (Hs : src_ok x) by (right; auto).
      rewrite (lookup_NoDup_In _ _ _ (save_names_NoDup E s1 wf_s1 c1)
                 (in_save_rels E s1 wf_s1 c1 x (proj2 (names2_iff x) Hin)
                    (fun H => Hne (proj1 (rels_nil_s1 x Hs) H)))).
      rewrite (lookup_NoDup_In _ _ _ (save_names_NoDup E p Hwf c) (in_save_rels E p Hwf c x Hin Hne)).
      rewrite rels_or_nil_s1 by auto. rewrite out_rels_fix by auto. reflexivity.
  - assert (Hnin2 : ~ In n (map fst (save E k2))) by (rewrite idem_names; auto).
    apply lookup_None in Hnin, Hnin2. congruence.
Qed.
End Idem.

Lemma c01_idem {blob} (E : env blob) p :
  wf E p -> codec_ok E -> env_ok E ->
  exists k k2, load E p = Ok k /\ load E (save E k) = Ok k2 /\ same_package (save E k2) (save E k).
Proof.
  intros Hwf Hcodec Henv. pose proof (no_default_clash_always E p) as Hnc. destruct (load_wf E p Hwf) as (cb & c & Hcb & Hc & Hl).
  pose proof (wf_s1 E p Hwf cb c Hcb Hc Hcodec Henv Hnc) as Hwf1.
  destruct (load_wf E _ Hwf1) as (cb1 & c1 & Hcb1 & Hc1 & Hl1).
  exists (spec_pkg E p c), (spec_pkg E (save E (spec_pkg E p c)) c1). split; auto. split; auto.
  rewrite (lookup_ct_s1 E p Hwf c) in Hcb1. inversion Hcb1; subst cb1.
  destruct Hcodec as (Hdr & Hdc & Hid). rewrite Hdc in Hc1. inversion Hc1; subst c1.
  split.
  - apply (idem_names E p Hwf cb c Hcb Hc (conj Hdr (conj Hdc Hid)) Henv Hnc).
  - apply (idem_lookup E p Hwf cb c Hcb Hc (conj Hdr (conj Hdc Hid)) Henv Hnc).
Qed.

(** ---- C16: classification of the outcomes of opening ---- *)

Lemma mapM_err {A B} (f : A -> res B) l e : mapM f l = Err e -> exists x, In x l /\ f x = Err e.
Proof.
  induction l as [|x l IH]; simpl; [discriminate|].
  destruct (f x) as [y|e'] eqn:Ef; simpl.
  - destruct (mapM f l) as [ys|e'']; simpl; [discriminate|]. intros H. inversion H; subst.
    destruct (IH eq_refl) as (x' & Hx' & Hf). eauto.
  - intros H. inversion H; subst. eauto.
Qed.

Lemma mapM_ok_in {A B} (f : A -> res B) l ys : mapM f l = Ok ys ->
  forall y, In y ys -> exists x, In x l /\ f x = Ok y.
Proof.
  revert ys. induction l as [|x l IH]; simpl; intros ys H y Hy.
  - inversion H; subst. destruct Hy.
  - destruct (f x) as [y0|] eqn:Ef; simpl in H; [|discriminate].
    destruct (mapM f l) as [ys0|]; simpl in H; [|discriminate]. inversion H; subst.
    destruct Hy as [<-|Hy]; [eauto|]. destruct (IH ys0 eq_refl y Hy) as (x' & Hx' & Hf). eauto.
Qed.

Lemma mapM_ok_map {A B} (f : A -> res B) (g : B -> A) l ys :
  (forall x y, f x = Ok y -> g y = x) -> mapM f l = Ok ys -> map g ys = l.
Proof.
  intros Hg. revert ys. induction l as [|x l IH]; simpl; intros ys H.
  - inversion H; auto.
  - destruct (f x) as [y0|] eqn:Ef; simpl in H; [|discriminate].
    destruct (mapM f l) as [ys0|]; simpl in H; [|discriminate]. inversion H; subst. simpl.
    rewrite (Hg _ _ Ef), (IH ys0); auto.
Qed.

Lemma valid_rels_err src present rs e : valid_rels src present rs = Err e ->
  e = KeyErr /\ exists r, In r rs /\ r_mode r = MOther /\
                          present (resolve (baseURI src) (r_target r)) = false.
Proof.
  induction rs as [|r rs IH]; simpl; [discriminate|].
  destruct (r_mode r) eqn:Em.
  - destruct (present (resolve (baseURI src) (r_target r))).
    + destruct (valid_rels src present rs); simpl; [discriminate|]. intros H; inversion H; subst.
      destruct (IH eq_refl) as (He & r' & Hr' & Hm & Hp). split; auto. exists r'. auto.
    + intros H. destruct (IH H) as (He & r' & Hr' & Hm & Hp). split; auto. exists r'. auto.
  - destruct (valid_rels src present rs); simpl; [discriminate|]. intros H; inversion H; subst.
    destruct (IH eq_refl) as (He & r' & Hr' & Hm & Hp). split; auto. exists r'. auto.
  - destruct (present (resolve (baseURI src) (r_target r))) eqn:Ep.
    + destruct (valid_rels src present rs); simpl; [discriminate|]. intros H; inversion H; subst.
      destruct (IH eq_refl) as (He & r' & Hr' & Hm & Hp). split; auto. exists r'. auto.
    + intros H; inversion H; subst. split; auto. exists r. auto.
Qed.

Lemma valid_rels_targets src present rs l : valid_rels src present rs = Ok l ->
  forall r, In r l -> l_ext r = false -> present (l_target r) = true.
Proof.
  revert l. induction rs as [|r0 rs IH]; simpl; intros l H r Hr He.
  - inversion H; subst. destruct Hr.
  - destruct (r_mode r0).
    + destruct (present (resolve (baseURI src) (r_target r0))) eqn:Ep.
      * destruct (valid_rels src present rs) as [l0|]; simpl in H; [|discriminate]. inversion H; subst.
        destruct Hr as [<-|Hr]; [exact Ep|]. eapply IH; eauto.
      * eapply IH; eauto.
    + destruct (valid_rels src present rs) as [l0|]; simpl in H; [|discriminate]. inversion H; subst.
      destruct Hr as [<-|Hr]; [discriminate|]. eapply IH; eauto.
    + destruct (present (resolve (baseURI src) (r_target r0))) eqn:Ep; [|discriminate].
      destruct (valid_rels src present rs) as [l0|]; simpl in H; [|discriminate]. inversion H; subst.
      destruct Hr as [<-|Hr]; [exact Ep|]. eapply IH; eauto.
Qed.

Lemma lrels_set_in r d x : In x (lrels_set r d) -> x = r \/ In x d.
Proof.
  induction d as [|r' d IH]; simpl; [intros [H|[]]; auto|].
  destruct (str_eqb (l_id r') (l_id r)); simpl; [intros [H|H]; auto|]. intros [H|H]; auto.
  destruct (IH H); auto.
Qed.

Lemma lrels_dict_in l x : In x (lrels_dict l) -> In x l.
Proof.
  unfold lrels_dict. assert (H : forall acc, In x (fold_left (fun d r => lrels_set r d) l acc) -> In x acc \/ In x l).
  { induction l as [|r l IH]; simpl; auto. intros acc Hx. destruct (IH _ Hx) as [H|H]; auto.
    destruct (lrels_set_in _ _ _ H); auto. }
  intros Hx. destruct (H [] Hx) as [[]|]; auto.
Qed.

Lemma load_rels_targets {blob} (E : env blob) p present n l : load_rels E p present n = Ok l ->
  forall r, In r l -> l_ext r = false -> present (l_target r) = true.
Proof.
  unfold load_rels. destruct (valid_rels n present (rels_or_nil E p n)) as [l0|] eqn:Ev; simpl; [|discriminate].
  intros H; inversion H; subst. intros r Hr. apply lrels_dict_in in Hr.
  eapply valid_rels_targets; eauto.
Qed.

(** what a successful load returns: one part per loaded name, every internal
    relationship pointing at a loaded part *)
Lemma load_ok_shape {blob} (E : env blob) p k : load E p = Ok k ->
  map p_name (k_parts k) = part_names E p /\
  (forall r, In r (k_rels k) -> l_ext r = false -> In (l_target r) (part_names E p)) /\
  (forall pt r, In pt (k_parts k) -> In r (p_rels pt) -> l_ext r = false ->
                In (l_target r) (part_names E p)).
Proof.
  unfold load. destruct (lookup ct_uri p) as [cb|]; [|discriminate].
  destruct (dec_ct E cb) as [c|]; [|discriminate].
  destruct (negb _); [discriminate|].
  destruct (mapM (load_part E p c) (part_names E p)) as [protos|] eqn:E1; simpl; [|discriminate].
  match goal with |- context [mapM ?f protos] => destruct (mapM f protos) as [parts|] eqn:E2 end; simpl; [|discriminate].
  destruct (load_rels E p _ root) as [krels|] eqn:E3; simpl; [|discriminate].
  intros H; inversion H; subst; simpl. split; [|split].
  - assert (Hn : map (fun pr : str * str * blob => fst (fst pr)) protos = part_names E p).
    { apply (mapM_ok_map (load_part E p c)); auto. intros x [[n ct] b]. unfold load_part.
      destruct (ct_lookup c x); simpl; [|discriminate]. destruct (lookup x p); [|discriminate].
      destruct (is_xml_ct E a); [destruct (reser E b0)|]; intros Hx; inversion Hx; auto. }
    rewrite <- Hn. clear - E2. revert parts E2. induction protos as [|[[n ct] b] protos IH]; simpl; intros parts H.
    + inversion H; auto.
    + destruct (load_rels E p _ n); simpl in H; [|discriminate].
      match type of H with context [mapM ?f protos] => destruct (mapM f protos) as [ps|] eqn:Em end; simpl in H; [|discriminate].
      inversion H; subst. simpl. f_equal. apply IH; auto.
  - intros r Hr He. apply mem_str_In.
    exact (load_rels_targets E p (fun n => mem_str n (part_names E p)) root krels E3 r Hr He).
  - intros pt r Hpt Hr He.
    destruct (mapM_ok_in _ _ _ E2 pt Hpt) as ([[n ct] b] & _ & Hf).
    destruct (load_rels E p _ n) as [rs|] eqn:El; simpl in Hf; [|discriminate]. inversion Hf; subst. simpl in Hr.
    apply mem_str_In.
    exact (load_rels_targets E p (fun n0 => mem_str n0 (part_names E p)) n rs El r Hr He).
Qed.

Lemma find_part_in {blob} (k : pkg blob) n : In n (map p_name (k_parts k)) -> exists pt, find_part k n = Some pt.
Proof.
  unfold find_part. induction (k_parts k) as [|a l IH]; simpl; [tauto|].
  destruct (str_eqb_spec (p_name a) n) as [->|Hn]; [eauto|]. intros [H|H]; [congruence|auto].
Qed.

Lemma ct_lookup_err c n e : ct_lookup c n = Err e -> e = KeyErr.
Proof.
  unfold ct_lookup. destruct (lookup _ _); [discriminate|]. destruct (lookup _ _); [discriminate|].
  intros H; inversion H; auto.
Qed.

Lemma load_err {blob} (E : env blob) p e : load E p = Err e ->
  (e = KeyErr /\ (cause_no_ct_item p \/ cause_untyped_part E p \/ cause_dangling_other_mode E p)) \/
  (e = OtherErr /\ (cause_ct_undecodable E p \/ cause_rels_undecodable E p \/ cause_xml_unparseable E p)).
Proof.
  unfold load. destruct (lookup ct_uri p) as [cb|] eqn:Ecb.
  2:{ intros H; inversion H; subst. left. split; [auto|]. left. exact Ecb. }
  destruct (dec_ct E cb) as [c|] eqn:Ec.
  2:{ intros H; inversion H; subst. right. split; [auto|]. left. exists cb. auto. }
  assert (Hctin : forall n, ct_in E p n = ct_lookup c n) by (intros; unfold ct_in; rewrite Ecb, Ec; auto).
  destruct (forallb _ (xml_rels_names E p)) eqn:Ef; cbn [negb].
  2:{ intros H; inversion H; subst. right. split; [auto|]. right; left.
      assert (Hex : existsb (fun n => negb match rels_for E p n with Some _ => true | None => false end) (xml_rels_names E p) = true).
      { clear - Ef. induction (xml_rels_names E p) as [|a l IH]; simpl in *; [discriminate|].
        destruct (rels_for E p a); simpl in *; auto. }
      apply existsb_exists in Hex as (n & Hn & Hx). exists n. split; auto.
      destruct (rels_for E p n); [discriminate|auto]. }
  destruct (mapM (load_part E p c) (part_names E p)) as [protos|e1] eqn:E1; cbn [bind].
  2:{ intros H; inversion H; subst. apply mapM_err in E1 as (n & Hn & Hf). unfold load_part in Hf.
      destruct (ct_lookup c n) as [ct|e2] eqn:Ect; simpl in Hf.
      - assert (Hhas : has n p = true).
        { unfold part_names in Hn. apply filter_In in Hn as [_ Hn]. apply andb_true_iff in Hn; tauto. }
        unfold has in Hhas. destruct (lookup n p) as [b|] eqn:Eb; [|discriminate].
        destruct (is_xml_ct E ct) eqn:Ex; [|discriminate]. destruct (reser E b) eqn:Er; [discriminate|].
        inversion Hf; subst. right. split; [auto|]. right; right. exists n, ct, b. rewrite Hctin. auto.
      - inversion Hf; subst. pose proof (ct_lookup_err _ _ _ Ect); subst. left. split; [auto|]. right; left.
        exists n. rewrite Hctin. auto. }
  assert (Hnames : forall pr, In pr protos -> In (fst (fst pr)) (part_names E p)).
  { intros pr Hpr. destruct (mapM_ok_in _ _ _ E1 pr Hpr) as (x & Hx & Hf). unfold load_part in Hf.
    destruct (ct_lookup c x); simpl in Hf; [|discriminate]. destruct (lookup x p); [|discriminate].
    destruct (is_xml_ct E a); [destruct (reser E b)|]; inversion Hf; subst; auto. }
  match goal with |- context [mapM ?f protos] => destruct (mapM f protos) as [parts|e2] eqn:E2 end; cbn [bind].
  2:{ intros H; inversion H; subst. apply mapM_err in E2 as ([[n ct] b] & Hpr & Hf).
      unfold load_rels in Hf.
      destruct (valid_rels n (fun n0 => mem_str n0 (part_names E p)) (rels_or_nil E p n)) as [l|e3] eqn:Ev;
        simpl in Hf; [discriminate|].
      inversion Hf; subst. apply valid_rels_err in Ev as (-> & r & Hr & Hm & Hp).
      left. split; [auto|]. right; right. exists n, r. split; [right; apply (Hnames _ Hpr)|]. auto. }
  unfold load_rels.
  destruct (valid_rels root (fun n0 => mem_str n0 (part_names E p)) (rels_or_nil E p root)) as [l|e3] eqn:Ev; simpl; [discriminate|].
  intros H; inversion H; subst. apply valid_rels_err in Ev as (-> & r & Hr & Hm & Hp).
  left. split; [auto|]. right; right. exists root, r. split; [left; auto|]. auto.
Qed.

(** Presentation(): every way it can be refused, and no other error class *)
Lemma load_presentation_err {blob} (E : env blob) p e : load_presentation E p = Err e ->
  (e = KeyErr /\ (cause_no_ct_item p \/ cause_untyped_part E p \/ cause_dangling_other_mode E p \/
                  exists k, load E p = Ok k /\ od_rels E k = [])) \/
  (e = ValueErr /\ exists k, load E p = Ok k /\
       ((exists r1 r2 l, od_rels E k = r1 :: r2 :: l) \/
        (exists r, od_rels E k = [r] /\ l_ext r = true) \/
        (exists r pt, od_rels E k = [r] /\ l_ext r = false /\ find_part k (l_target r) = Some pt /\
                      mem_str (p_ct pt) (prescts E) = false))) \/
  (e = OtherErr /\ (cause_ct_undecodable E p \/ cause_rels_undecodable E p \/ cause_xml_unparseable E p)).
Proof.
  unfold load_presentation. destruct (load E p) as [k|e0] eqn:El; cbn [bind].
  2:{ intros H; inversion H; subst. apply load_err in El as [[-> Hc]|[-> Hc]]; [left|right; right]; split; auto.
      tauto. }
  fold (od_rels E k). destruct (od_rels E k) as [|r [|r2 l]] eqn:Eod.
  - intros H; inversion H; subst. left. split; [auto|]. right; right; right. exists k. auto.
  - destruct (l_ext r) eqn:Ee.
    + intros H; inversion H; subst. right; left. split; [auto|]. exists k. split; [auto|]. right; left. exists r. auto.
    + destruct (load_ok_shape E p k El) as (Hn & Hk & _).
      assert (Hr : In r (k_rels k)).
      { assert (Hin : In r (od_rels E k)) by (rewrite Eod; simpl; auto). unfold od_rels in Hin.
        apply filter_In in Hin; tauto. }
      destruct (find_part_in k (l_target r)) as (pt & Hpt); [rewrite Hn; apply Hk; auto|].
      rewrite Hpt. destruct (mem_str (p_ct pt) (prescts E)) eqn:Em; [discriminate|].
      intros H; inversion H; subst. right; left. split; [auto|]. exists k. split; auto.
      right; right. exists r, pt. auto.
  - intros H; inversion H; subst. right; left. split; [auto|]. exists k. split; [auto|]. left. eauto.
Qed.

Lemma load_presentation_ok {blob} (E : env blob) p k main : load_presentation E p = Ok (k, main) ->
  load E p = Ok k /\ exists r, od_rels E k = [r] /\ l_ext r = false /\
    find_part k (l_target r) = Some main /\ mem_str (p_ct main) (prescts E) = true.
Proof.
  unfold load_presentation. destruct (load E p) as [k0|] eqn:El; cbn [bind]; [|discriminate].
  fold (od_rels E k0). destruct (od_rels E k0) as [|r [|r2 l]] eqn:Eod; try discriminate.
  destruct (l_ext r) eqn:Ee; [discriminate|]. destruct (find_part k0 (l_target r)) as [pt|] eqn:Ef; [|discriminate].
  destruct (mem_str (p_ct pt) (prescts E)) eqn:Em; [|discriminate].
  intros H; inversion H; subst. split; [auto|]. exists r. auto.
Qed.

Lemma open_classify {blob} (E : env blob) (s : source blob) :
  match open_presentation E s with
  | ONotFound => s = SrcNotFound
  | OBadZip => s = SrcNotZip
  | OErr e => exists p, s = SrcMembers p /\ load_presentation E p = Err e /\
                        (e = KeyErr \/ e = ValueErr \/ e = OtherErr)
  | OOk km => exists p, s = SrcMembers p /\ load_presentation E p = Ok km
  end.
Proof.
  destruct s as [| |p]; simpl; auto.
  destruct (load_presentation E p) as [km|e] eqn:El; [eauto|].
  exists p. split; auto. split; auto.
  apply load_presentation_err in El as [[-> _]|[[-> _]|[-> _]]]; auto.
Qed.

(** ---- C16: the content type lookup ignores case, exactly as far as the code does ---- *)

Definition low_pairs (l : list (str * str)) : list (str * str) :=
  map (fun kv => (lower (fst kv), snd kv)) l.

Lemma ct_lookup_case_decl ds os ds' os' x :
  low_pairs ds = low_pairs ds' -> low_pairs os = low_pairs os' ->
  ct_lookup (ds, os) x = ct_lookup (ds', os') x.
Proof.
  intros Hd Ho. unfold ct_lookup, lower_keys. cbn [fst snd].
  change (map (fun kv : str * str => (lower (fst kv), snd kv)) os) with (low_pairs os).
  change (map (fun kv : str * str => (lower (fst kv), snd kv)) os') with (low_pairs os').
  change (map (fun kv : str * str => (lower (fst kv), snd kv)) ds) with (low_pairs ds).
  change (map (fun kv : str * str => (lower (fst kv), snd kv)) ds') with (low_pairs ds').
  rewrite Hd, Ho. reflexivity.
Qed.

Lemma lower_c_eqb c d : (d = 47 \/ d = 46)%N -> N.eqb (lower_c c) d = N.eqb c d.
Proof.
  intros Hd. unfold lower_c. destruct ((65 <=? c)%N && (c <=? 90)%N) eqn:E; auto.
  apply andb_true_iff in E as [E1 E2]. apply N.leb_le in E1, E2.
  destruct (N.eqb_spec (c + 32) d), (N.eqb_spec c d); auto; lia.
Qed.

Lemma drop_while_map {A} (f : A -> A) (P : A -> bool) l :
  (forall x, P (f x) = P x) -> drop_while P (map f l) = map f (drop_while P l).
Proof. intros H. induction l as [|x l IH]; simpl; auto. rewrite H. destruct (P x); auto. Qed.

Lemma take_while_map {A} (f : A -> A) (P : A -> bool) l :
  (forall x, P (f x) = P x) -> take_while P (map f l) = map f (take_while P l).
Proof. intros H. induction l as [|x l IH]; simpl; auto. rewrite H. destruct (P x); simpl; auto. f_equal; auto. Qed.

Lemma rsplit_at_lower d s : (d = 47 \/ d = 46)%N ->
  rsplit_at d (lower s) = (lower (fst (rsplit_at d s)), lower (snd (rsplit_at d s))).
Proof.
  intros Hd. unfold rsplit_at, lower. cbn [fst snd]. rewrite <- map_rev.
  rewrite drop_while_map, take_while_map by (intros; rewrite lower_c_eqb; auto).
  rewrite !map_rev. reflexivity.
Qed.

Lemma existsb_lower (P : N -> bool) s : (forall x, P (lower_c x) = P x) -> existsb P (lower s) = existsb P s.
Proof. intros H. unfold lower. induction s as [|x s IH]; simpl; auto. rewrite H, IH. auto. Qed.

Lemma removelast_map {A B} (f : A -> B) l : removelast (map f l) = map f (removelast l).
Proof. induction l as [|x [|y l] IH]; simpl; auto. simpl in IH. rewrite IH. auto. Qed.

Lemma is_dot_lower x : is_dot (lower_c x) = is_dot x.
Proof. unfold is_dot. apply lower_c_eqb. auto. Qed.

Lemma splitext_lower p : snd (px_splitext (lower p)) = lower (snd (px_splitext p)).
Proof.
  unfold px_splitext. rewrite (rsplit_at_lower c_slash p) by (left; reflexivity).
  destruct (rsplit_at c_slash p) as [h t]. cbn [fst snd].
  rewrite existsb_lower by apply is_dot_lower. destruct (existsb is_dot t); [|reflexivity].
  rewrite (rsplit_at_lower c_dot t) by (right; reflexivity).
  destruct (rsplit_at c_dot t) as [a b]. cbn [fst snd].
  unfold lower at 1. rewrite removelast_map. fold (lower (removelast a)).
  rewrite existsb_lower by (intros; rewrite is_dot_lower; auto).
  destruct (existsb (fun c0 => negb (is_dot c0)) (removelast a)); reflexivity.
Qed.

Lemma ext_lower x : ext (lower x) = lower (ext x).
Proof.
  unfold ext. rewrite splitext_lower. destruct (snd (px_splitext x)) as [|c r]; [reflexivity|].
  simpl. rewrite is_dot_lower. destruct (is_dot c); reflexivity.
Qed.

Lemma ct_lookup_case_name c x y : lower x = lower y -> ct_lookup c x = ct_lookup c y.
Proof.
  intros H. unfold ct_lookup. rewrite H.
  assert (He : lower (ext x) = lower (ext y)) by (rewrite <- !ext_lower, H; reflexivity).
  rewrite He. reflexivity.
Qed.

(** ---- C16: regularise ---- *)

Lemma dfs_nodup g fuel : forall vis src, NoDup vis -> ~ In src vis -> NoDup (dfs g fuel vis src).
Proof.
  induction fuel as [|f IH]; intros vis src Hnd Hn; simpl; auto.
  assert (H : forall ys acc, NoDup acc -> NoDup (fold_left (step (dfs g f)) ys acc)).
  { induction ys as [|y ys IHy]; intros acc Ha; simpl; auto. apply IHy. unfold step.
    destruct (mem_str y acc) eqn:E; auto. apply IH; auto. apply mem_str_nIn; auto. }
  apply H. constructor; auto.
Qed.

Lemma part_names_NoDup {blob} (E : env blob) p : NoDup (part_names E p).
Proof.
  unfold part_names, xml_rels_names. apply NoDup_filter, NoDup_rev, dfs_nodup; [constructor|auto].
Qed.

Lemma part_names_has {blob} (E : env blob) p n : In n (part_names E p) -> n <> root /\ exists b, lookup n p = Some b.
Proof.
  unfold part_names. intros H. apply filter_In in H as [_ H]. apply andb_true_iff in H as [H1 H2].
  apply negb_true_iff, str_eqb_neq in H1. split; auto. unfold has in H2. destruct (lookup n p); [eauto|discriminate].
Qed.

Lemma valid_rels_ok src present rs l : valid_rels src present rs = Ok l ->
  l = map (conv_rel src) (filter (kept_rel src present) rs).
Proof.
  revert l. induction rs as [|r rs IH]; simpl; intros l H; [inversion H; auto|].
  unfold kept_rel at 1, conv_rel at 1, is_ext. destruct (r_mode r) eqn:Em.
  - destruct (present (resolve (baseURI src) (r_target r))) eqn:Ep.
    + destruct (valid_rels src present rs) as [l0|]; simpl in H; [|discriminate]. inversion H; subst.
      simpl. rewrite Em. f_equal. apply IH; auto.
    + apply IH; auto.
  - destruct (valid_rels src present rs) as [l0|]; simpl in H; [|discriminate]. inversion H; subst.
    simpl. rewrite Em. f_equal. apply IH; auto.
  - destruct (present (resolve (baseURI src) (r_target r))) eqn:Ep; [|discriminate].
    destruct (valid_rels src present rs) as [l0|]; simpl in H; [|discriminate]. inversion H; subst.
    simpl. rewrite Em. f_equal. apply IH; auto.
Qed.

Lemma mapM_ok_eq {A B} (f : A -> res B) (h : A -> B) l ys :
  mapM f l = Ok ys -> (forall x y, In x l -> f x = Ok y -> y = h x) -> ys = map h l.
Proof.
  revert ys. induction l as [|x l IH]; simpl; intros ys H Hh; [inversion H; auto|].
  destruct (f x) as [y0|] eqn:Ef; simpl in H; [|discriminate].
  destruct (mapM f l) as [ys0|]; simpl in H; [|discriminate]. inversion H; subst.
  rewrite (Hh x y0) by auto. f_equal. apply IH; auto.
Qed.

(** relationships the loader keeps for a source *)
Definition kept_lrels {blob} (E : env blob) (p : phys blob) (n : str) : list lrel :=
  map (conv_rel n) (filter (kept_rel n (fun t => mem_str t (part_names E p))) (rels_or_nil E p n)).

Definition gen_part {blob} (E : env blob) (p : phys blob) (c : cts) (n : str) : part blob :=
  mkPart n (ct_or c n) (blob_or E p c n) (lrels_dict (kept_lrels E p n)).

Lemma load_ok_explicit {blob} (E : env blob) p k : load E p = Ok k ->
  exists cb c, lookup ct_uri p = Some cb /\ dec_ct E cb = Some c /\
    k_rels k = lrels_dict (kept_lrels E p root) /\
    k_parts k = map (gen_part E p c) (part_names E p).
Proof.
  unfold load. destruct (lookup ct_uri p) as [cb|] eqn:Ecb; [|discriminate].
  destruct (dec_ct E cb) as [c|] eqn:Ec; [|discriminate]. destruct (negb _); [discriminate|].
  destruct (mapM (load_part E p c) (part_names E p)) as [protos|] eqn:E1; cbn [bind]; [|discriminate].
  match goal with |- context [mapM ?f protos] => destruct (mapM f protos) as [parts|] eqn:E2 end; cbn [bind]; [|discriminate].
  destruct (load_rels E p (fun n => mem_str n (part_names E p)) root) as [krels|] eqn:E3; cbn [bind]; [|discriminate].
  intros H; inversion H; subst. exists cb, c. split; auto. split; auto. cbn [k_rels k_parts]. split.
  - unfold load_rels in E3.
    destruct (valid_rels root (fun n => mem_str n (part_names E p)) (rels_or_nil E p root)) as [l|] eqn:Ev; simpl in E3; [|discriminate].
    inversion E3; subst. rewrite (valid_rels_ok _ _ _ _ Ev). reflexivity.
  - assert (Hp : protos = map (fun n => (n, ct_or c n, blob_or E p c n)) (part_names E p)).
    { apply (mapM_ok_eq _ _ _ _ E1). intros x y _ Hf. unfold load_part in Hf. unfold blob_or, ct_or.
      destruct (ct_lookup c x) as [ct|]; simpl in Hf; [|discriminate].
      destruct (lookup x p) as [b|]; [|discriminate].
      destruct (is_xml_ct E ct) eqn:Ex; [destruct (reser E b) eqn:Er|]; inversion Hf; subst; cbn;
        rewrite ?Ex, ?Er; reflexivity. }
    subst protos. rewrite (mapM_ok_eq _ (fun pr : str * str * blob => let '(n, ct, b) := pr in
                              mkPart n ct b (lrels_dict (kept_lrels E p n))) _ _ E2).
    + rewrite map_map. reflexivity.
    + intros [[n ct] b] y _ Hf. unfold load_rels in Hf.
      destruct (valid_rels n (fun n0 => mem_str n0 (part_names E p)) (rels_or_nil E p n)) as [l|] eqn:Ev; simpl in Hf; [|discriminate].
      inversion Hf; subst. rewrite (valid_rels_ok _ _ _ _ Ev). reflexivity.
Qed.

Lemma flat_map_ext_in {A B} (f g : A -> list B) l : (forall x, In x l -> f x = g x) -> flat_map f l = flat_map g l.
Proof. induction l as [|a l IH]; simpl; auto. intros H. rewrite (H a), IH; auto. Qed.

Lemma find_map_name {blob} (h : str -> part blob) n l : (forall x, p_name (h x) = x) ->
  find (fun pt : part blob => str_eqb (p_name pt) n) (map h l) = if mem_str n l then Some (h n) else None.
Proof.
  intros Hh. induction l as [|x l IH]; simpl; auto. unfold mem_str in *. simpl.
  rewrite Hh, (str_eqb_sym n x). destruct (str_eqb_spec x n) as [->|Hn]; simpl; auto.
Qed.

Section Reg.
Context {blob : Type}.
Variable E : env blob.
Variable p : phys blob.
Variable k : pkg blob.
Hypothesis Hcodec : codec_ok E.
Hypothesis Hnames : forall n, In n (part_names E p) -> part_name n.
Hypothesis Hwfq : wf E (regularise E p).
Variable cb : blob.
Variable c : cts.
Hypothesis Hcb : lookup ct_uri p = Some cb.
Hypothesis Hc : dec_ct E cb = Some c.
Hypothesis Hkr : k_rels k = lrels_dict (kept_lrels E p root).
Hypothesis Hkp : k_parts k = map (gen_part E p c) (part_names E p).

Notation q := (regularise E p).
Notation pn := (part_names E p).
Notation present := (fun t => mem_str t (part_names E p)).

Definition kfilter (n : str) : list rel := filter (kept_rel n present) (rels_or_nil E p n).
Definition bget (n : str) : blob := match lookup n p with Some b => b | None => enc_rels E [] end.

Lemma q_eq : q = (ct_uri, cb) :: (rels_item_name root, enc_rels E (kfilter root))
                 :: flat_map (fun n => [(n, bget n); (rels_item_name n, enc_rels E (kfilter n))]) pn.
Proof.
  unfold regularise. rewrite Hcb. f_equal. f_equal. apply flat_map_ext_in. intros n Hn.
  destruct (part_names_has E p n Hn) as (_ & b & Hb). unfold bget. rewrite Hb. reflexivity.
Qed.

Lemma q_names : map fst q = ct_uri :: rels_item_name root :: flat_map (fun n => [n; rels_item_name n]) pn.
Proof.
  rewrite q_eq. cbn [map fst]. f_equal. f_equal.
  assert (H : forall l, map fst (flat_map (fun n => [(n, bget n); (rels_item_name n, enc_rels E (kfilter n))]) l)
                        = flat_map (fun n => [n; rels_item_name n]) l).
  { induction l as [|n l IH]; [reflexivity|]. cbn [flat_map map app fst]. rewrite IH. reflexivity. }
  apply H.
Qed.

Lemma q_names_NoDup : NoDup (map fst q).
Proof.
  rewrite q_names.
  assert (Hin : forall z, In z (flat_map (fun n => [n; rels_item_name n]) pn) ->
            exists n, In n pn /\ (z = n \/ z = rels_item_name n)).
  { intros z Hz. apply in_flat_map in Hz as (n & Hn & [<-|[<-|[]]]); eauto. }
  constructor; [|constructor].
  - intros [H|H].
    + apply ct_uri_not_shaped. rewrite <- H. apply rels_item_root_shaped.
    + apply Hin in H as (n & Hn & [H|H]).
      * apply (part_name_ne_ct n); auto.
      * apply ct_uri_not_shaped. rewrite H. apply rels_item_shaped; auto.
  - intros H. apply Hin in H as (n & Hn & [H|H]).
    + apply (part_name_not_shaped n); auto. rewrite <- H. apply rels_item_root_shaped.
    + symmetry in H. apply rels_item_not_root in H; auto.
  - apply NoDup_flat_map.
    + apply part_names_NoDup.
    + intros n Hn. constructor; [|repeat constructor; simpl; auto].
      intros [H|[]]. apply (part_name_not_shaped n); auto. rewrite <- H. apply rels_item_shaped; auto.
    + intros x y z Hx Hy Hne [<-|[<-|[]]] [H|[H|[]]].
      * congruence.
      * apply (part_name_not_shaped x); auto. rewrite <- H. apply rels_item_shaped; auto.
      * apply (part_name_not_shaped y); auto. rewrite H. apply rels_item_shaped; auto.
      * apply Hne. symmetry. apply rels_item_inj; auto.
Qed.

Lemma q_lookup_ct : lookup ct_uri q = Some cb.
Proof. rewrite q_eq. cbn [lookup]. rewrite str_eqb_refl. reflexivity. Qed.

Lemma q_in_part n : In n pn -> In (n, bget n) q.
Proof.
  intros Hn. rewrite q_eq. right; right. apply in_flat_map. exists n. split; auto. left; auto.
Qed.

Lemma q_in_rels n : In n pn -> In (rels_item_name n, enc_rels E (kfilter n)) q.
Proof.
  intros Hn. rewrite q_eq. right; right. apply in_flat_map. exists n. split; auto. right; left; auto.
Qed.

Lemma q_lookup_part n : In n pn -> lookup n q = lookup n p.
Proof.
  intros Hn. rewrite (lookup_NoDup_In n (bget n) q q_names_NoDup (q_in_part n Hn)).
  destruct (part_names_has E p n Hn) as (_ & b & Hb). unfold bget. rewrite Hb. reflexivity.
Qed.

Lemma q_rels x : (x = root \/ In x pn) -> rels_for E q x = Some (kfilter x).
Proof.
  destruct Hcodec as (Hdr & _ & _). intros [->|Hx].
  - unfold rels_for. rewrite rels_uri_root_ok, q_eq. cbn [lookup].
    assert (Hne : str_eqb ct_uri (rels_item_name root) = false) by reflexivity.
    rewrite Hne, str_eqb_refl. apply Hdr.
  - unfold rels_for. rewrite (rels_uri_part x (Hnames x Hx)).
    rewrite (lookup_NoDup_In _ _ q q_names_NoDup (q_in_rels x Hx)). apply Hdr.
Qed.

Lemma q_member n : In n (map fst q) -> part_name n -> In n pn.
Proof.
  rewrite q_names. intros [H|[H|H]] Hp.
  - exfalso. apply (part_name_ne_ct n); auto.
  - exfalso. apply (part_name_not_shaped n Hp). rewrite <- H. apply rels_item_root_shaped.
  - apply in_flat_map in H as (m & Hm & [<-|[<-|[]]]); auto.
    exfalso. apply (part_name_not_shaped _ Hp). apply rels_item_shaped; auto.
Qed.

Lemma q_parts_in n : In n (part_names E q) -> In n pn.
Proof.
  intros H. apply (proj1 (part_names_spec E q Hwfq)) in H as [Hr Hne].
  apply q_member; [apply (reachable_member E q Hwfq); auto|apply (wf_part_name E q Hwfq); auto].
Qed.

Lemma q_src x : reachable E q x -> x = root \/ In x pn.
Proof.
  intros H. destruct (str_eq_dec x root); auto. right. apply q_parts_in.
  apply (proj1 (part_names_spec E q Hwfq)); auto.
Qed.

Lemma q_rels_or_nil x : reachable E q x -> rels_or_nil E q x = kfilter x.
Proof. intros H. apply (rels_or_nil_eq E q). apply q_rels. apply q_src; auto. Qed.

Lemma kept_ids_NoDup x : reachable E q x -> NoDup (map l_id (kept_lrels E p x)).
Proof.
  intros H. destruct (wf_rels E q Hwfq x H) as (rs & Hrs & Hnd & _).
  rewrite q_rels in Hrs by (apply q_src; auto). inversion Hrs; subst.
  unfold kept_lrels. rewrite conv_rel_ids. exact Hnd.
Qed.

Lemma q_ct : exists cb', lookup ct_uri q = Some cb' /\ dec_ct E cb' = Some c.
Proof. exists cb. split; [apply q_lookup_ct|exact Hc]. Qed.

Lemma q_load : load E q = Ok (spec_pkg E q c).
Proof.
  destruct (load_wf E q Hwfq) as (cb' & c' & Hcb' & Hc' & Hl).
  rewrite q_lookup_ct in Hcb'. inversion Hcb'; subst cb'. rewrite Hc in Hc'. inversion Hc'; subst c'. exact Hl.
Qed.

Lemma q_k_rels : k_rels (spec_pkg E q c) = k_rels k.
Proof.
  simpl. rewrite Hkr, q_rels_or_nil by apply r0. fold (kept_lrels E p root).
  rewrite lrels_dict_id; auto. apply kept_ids_NoDup. apply r0.
Qed.

Lemma q_spec_part n : In n (part_names E q) -> spec_part E q c n = gen_part E p c n.
Proof.
  intros Hn. pose proof (q_parts_in n Hn) as Hpn.
  apply (proj1 (part_names_spec E q Hwfq)) in Hn as [Hr Hne].
  unfold spec_part, gen_part. f_equal.
  - unfold blob_or. rewrite q_lookup_part by auto. reflexivity.
  - rewrite q_rels_or_nil by auto. fold (kept_lrels E p n). rewrite lrels_dict_id; auto.
    apply kept_ids_NoDup; auto.
Qed.

Lemma find_part_k n : find_part k n = if mem_str n pn then Some (gen_part E p c n) else None.
Proof. unfold find_part. rewrite Hkp. apply find_map_name. reflexivity. Qed.

Lemma lsuccs_k n : In n (part_names E q) -> lsuccs k n = succs E q n.
Proof.
  intros Hn. pose proof (q_parts_in n Hn) as Hpn.
  apply (proj1 (part_names_spec E q Hwfq)) in Hn as [Hr Hne].
  unfold lsuccs. rewrite find_part_k, (proj2 (mem_str_In _ _) Hpn). cbn [p_rels gen_part].
  rewrite lrels_dict_id by (apply kept_ids_NoDup; auto).
  unfold kept_lrels. rewrite lint_targets_conv. fold (kfilter n).
  rewrite (succs_rels E q n (kfilter n)); auto. apply q_rels. right; auto.
Qed.

Lemma start_targets : lint_targets (k_rels k) = succs E q root.
Proof. rewrite <- q_k_rels. apply (k_rels_targets E q Hwfq). Qed.

Lemma reach_k_q y x : In y (part_names E q) -> reach (lsuccs k) y x ->
  In x (part_names E q) /\ reachable E q x.
Proof.
  intros Hy H. induction H as [|x' z Hr IH Hz].
  - split; auto. apply (proj1 (part_names_spec E q Hwfq)) in Hy; tauto.
  - destruct IH as [Hx' Hrx']. rewrite lsuccs_k in Hz by auto.
    split; [eapply (succs_part_names E q Hwfq); eauto|eapply r1; eauto].
Qed.

Lemma reach_q_k x : reachable E q x -> x <> root ->
  exists y, In y (succs E q root) /\ reach (lsuccs k) y x.
Proof.
  induction 1 as [|x' y Hr IH Hy]; [congruence|]. intros Hne.
  destruct (str_eq_dec x' root) as [->|Hn'].
  - exists y. split; auto. apply r0.
  - destruct (IH Hn') as (y0 & Hy0 & Hr0). exists y0. split; auto.
    eapply r1; [exact Hr0|]. rewrite lsuccs_k; auto.
    apply (proj1 (part_names_spec E q Hwfq)); auto.
Qed.

Hypothesis Hload : load E p = Ok k.

Lemma lsuccs_closed a b : In b (lsuccs k a) -> In b pn.
Proof.
  unfold lsuccs, find_part. destruct (find _ (k_parts k)) as [pt|] eqn:Ef; [|intros []].
  apply find_some in Ef as [Hpt _]. unfold lint_targets. intros Hb.
  apply in_map_iff in Hb as (r & <- & Hr). apply filter_In in Hr as [Hr He]. apply negb_true_iff in He.
  destruct (load_ok_shape E p k Hload) as (_ & _ & H). eapply H; eauto.
Qed.

Lemma start_closed y : In y (lint_targets (k_rels k)) -> In y pn.
Proof.
  unfold lint_targets. intros Hb. apply in_map_iff in Hb as (r & <- & Hr).
  apply filter_In in Hr as [Hr He]. apply negb_true_iff in He.
  destruct (load_ok_shape E p k Hload) as (_ & H & _). apply H; auto.
Qed.

Lemma iter_names_k x : In x (iter_part_names k) <-> In x (iter_part_names (spec_pkg E q c)).
Proof.
  rewrite (names_reach E q Hwfq c).
  unfold iter_part_names, fuel_of. rewrite <- in_rev.
  destruct (walk_reach (lsuccs k) (fun x => In x pn) pn) with (ys := lint_targets (k_rels k))
    (fuel := S (length (k_parts k))) as [H1 _].
  - intros a b _ Hb. eapply lsuccs_closed; eauto.
  - auto.
  - apply start_closed.
  - rewrite Hkp, map_length. lia.
  - rewrite H1, start_targets. split.
    + intros (y & Hy & Hr).
      assert (Hyq : In y (part_names E q)) by (eapply (succs_part_names E q Hwfq); [apply r0|exact Hy]).
      destruct (reach_k_q y x Hyq Hr) as [Hx Hrx]. split; auto.
      apply (proj1 (part_names_spec E q Hwfq)) in Hx; tauto.
    + intros [Hr Hne]. apply reach_q_k; auto.
Qed.

Lemma iter_parts_k pt : In pt (iter_parts k) <-> In pt (iter_parts (spec_pkg E q c)).
Proof.
  rewrite (iter_parts_spec E q Hwfq c). unfold iter_parts. rewrite in_flat_map, in_map_iff. split.
  - intros (n & Hn & Hpt). rewrite find_part_k in Hpt. destruct (mem_str n pn) eqn:Em; [|destruct Hpt].
    destruct Hpt as [<-|[]]. exists n. apply iter_names_k in Hn. split; auto.
    apply q_spec_part. apply (names_reach E q Hwfq c) in Hn. apply (proj1 (part_names_spec E q Hwfq)); auto.
  - intros (n & <- & Hn). exists n. split; [apply iter_names_k; auto|].
    assert (Hq : In n (part_names E q)).
    { apply (names_reach E q Hwfq c) in Hn. apply (proj1 (part_names_spec E q Hwfq)); auto. }
    rewrite find_part_k, (proj2 (mem_str_In _ _) (q_parts_in n Hq)), (q_spec_part n Hq). left; auto.
Qed.
End Reg.

Lemma c16_regularise {blob} (E : env blob) p k :
  codec_ok E -> load E p = Ok k -> (forall n, In n (part_names E p) -> part_name n) ->
  wf E (regularise E p) ->
  exists k', load E (regularise E p) = Ok k' /\ k_rels k' = k_rels k /\
             (forall pt, In pt (iter_parts k') <-> In pt (iter_parts k)).
Proof.
  intros Hcodec Hload Hnames Hwfq.
  destruct (load_ok_explicit E p k Hload) as (cb & c & Hcb & Hc & Hkr & Hkp).
  exists (spec_pkg E (regularise E p) c). split; [|split].
  - apply (q_load E p Hwfq cb c Hcb Hc).
  - apply (q_k_rels E p k Hcodec Hnames Hwfq cb c Hcb Hkr).
  - intros pt. symmetry. apply (iter_parts_k E p k Hcodec Hnames Hwfq cb c Hcb Hkr Hkp Hload).
Qed.

(** with C01 on the regularised package: the parts an irregular package opens with are
    exactly the names its regularised form reaches, each once *)
Lemma c16_preserved {blob} (E : env blob) p k :
  codec_ok E -> load E p = Ok k -> (forall n, In n (part_names E p) -> part_name n) ->
  wf E (regularise E p) ->
  (forall x, In x (map p_name (iter_parts k)) <-> (reachable E (regularise E p) x /\ x <> root)) /\
  (forall r, In r (k_rels k) -> l_ext r = false -> In (l_target r) (map p_name (iter_parts k))) /\
  (forall pt r, In pt (iter_parts k) -> In r (p_rels pt) -> l_ext r = false ->
                In (l_target r) (map p_name (iter_parts k))).
Proof.
  intros Hcodec Hload Hnames Hwfq.
  destruct (c16_regularise E p k Hcodec Hload Hnames Hwfq) as (k' & Hl' & Hkr & Hparts).
  destruct (c01_reach E _ Hwfq) as (k2 & Hl2 & _ & Hreach). rewrite Hl' in Hl2. inversion Hl2; subst k2.
  assert (Hnm : forall x, In x (map p_name (iter_parts k)) <-> In x (map p_name (iter_parts k'))).
  { intros x. rewrite !in_map_iff. split; intros (pt & He & Hpt); exists pt; split; auto; apply Hparts; auto. }
  split; [|split].
  - intros x. rewrite Hnm. apply Hreach.
  - intros r Hr He. rewrite Hnm, Hreach. rewrite <- Hkr in Hr.
    destruct (load_wf E _ Hwfq) as (cb & c & Hcb & Hc & Hl). rewrite Hl' in Hl. inversion Hl; subst k'.
    assert (Hin : In (l_target r) (lint_targets (k_rels (spec_pkg E (regularise E p) c)))).
    { unfold lint_targets. apply in_map. apply filter_In. split; auto. rewrite He; auto. }
    rewrite (k_rels_targets E _ Hwfq c) in Hin.
    apply (proj1 (part_names_spec E _ Hwfq)). eapply (succs_part_names E _ Hwfq); [apply r0|exact Hin].
  - intros pt r Hpt Hr He. rewrite Hnm, Hreach. apply Hparts in Hpt.
    destruct (load_wf E _ Hwfq) as (cb & c & Hcb & Hc & Hl). rewrite Hl' in Hl. inversion Hl; subst k'.
    rewrite (iter_parts_spec E _ Hwfq c) in Hpt. apply in_map_iff in Hpt as (n & <- & Hn).
    apply (names_reach E _ Hwfq c) in Hn as [Hrn Hne].
    assert (Hin : In (l_target r) (lsuccs (spec_pkg E (regularise E p) c) n)).
    { unfold lsuccs. rewrite (find_part_spec E _ c).
      rewrite (proj2 (mem_str_In _ _)) by (apply (proj1 (part_names_spec E _ Hwfq)); auto).
      unfold lint_targets. apply in_map. apply filter_In. split; auto. rewrite He; auto. }
    rewrite (lsuccs_spec E _ Hwfq c) in Hin.
    rewrite (proj2 (mem_str_In _ _)) in Hin by (apply (proj1 (part_names_spec E _ Hwfq)); auto).
    apply (proj1 (part_names_spec E _ Hwfq)). eapply (succs_part_names E _ Hwfq); eauto.
Qed.

(** ---- the extracted instance and two concrete packages (non-vacuity, refutation) ---- *)
From V.model Require Import OpcRun.
From V.gen Require Import GenC01.

Lemma wenv_codec_ok : codec_ok wenv.
Proof.
  split; [|split]; try reflexivity.
  intros b b' H. simpl in *. unfold w_reser in *.
  destruct (N.eqb (w_flag b) 0); [discriminate|]. inversion H; subst. reflexivity.
Qed.

Lemma wenv_env_ok : env_ok wenv.
Proof.
  split.
  - apply nodupb_NoDup. vm_compute. reflexivity.
  - intros kv Hin. assert (H : forallb (fun kv : str * str => str_eqb (lower (fst kv)) (fst kv)) (initdefs wenv) = true)
      by (vm_compute; reflexivity).
    rewrite forallb_forall in H. apply str_eqb_eq. apply H; auto.
Qed.

(* a small deck: presentation -> slide -> image, a self reference written with a dot
   segment, an external link, an Override whose part name differs in case, a Default
   whose extension is upper case, an unreferenced thumbnail *)
Definition ex_deck : phys wblob :=
  [([47; 91; 67; 111; 110; 116; 101; 110; 116; 95; 84; 121; 112; 101; 115; 93; 46; 120; 109; 108]%N, mkW 1 1 None (Some ([([120; 109; 108]%N, [97; 112; 112; 108; 105; 99; 97; 116; 105; 111; 110; 47; 120; 109; 108]%N); ([114; 101; 108; 115]%N, [97; 112; 112; 108; 105; 99; 97; 116; 105; 111; 110; 47; 118; 110; 100; 46; 111; 112; 101; 110; 120; 109; 108; 102; 111; 114; 109; 97; 116; 115; 45; 112; 97; 99; 107; 97; 103; 101; 46; 114; 101; 108; 97; 116; 105; 111; 110; 115; 104; 105; 112; 115; 43; 120; 109; 108]%N); ([80; 78; 71]%N, [105; 109; 97; 103; 101; 47; 112; 110; 103]%N)], [([47; 112; 112; 116; 47; 112; 114; 101; 115; 101; 110; 116; 97; 116; 105; 111; 110; 46; 120; 109; 108]%N, [97; 112; 112; 108; 105; 99; 97; 116; 105; 111; 110; 47; 118; 110; 100; 46; 111; 112; 101; 110; 120; 109; 108; 102; 111; 114; 109; 97; 116; 115; 45; 111; 102; 102; 105; 99; 101; 100; 111; 99; 117; 109; 101; 110; 116; 46; 112; 114; 101; 115; 101; 110; 116; 97; 116; 105; 111; 110; 109; 108; 46; 112; 114; 101; 115; 101; 110; 116; 97; 116; 105; 111; 110; 46; 109; 97; 105; 110; 43; 120; 109; 108]%N); ([47; 80; 80; 84; 47; 115; 108; 105; 100; 101; 115; 47; 115; 108; 105; 100; 101; 49; 46; 88; 77; 76]%N, [97; 112; 112; 108; 105; 99; 97; 116; 105; 111; 110; 47; 118; 110; 100; 46; 111; 112; 101; 110; 120; 109; 108; 102; 111; 114; 109; 97; 116; 115; 45; 111; 102; 102; 105; 99; 101; 100; 111; 99; 117; 109; 101; 110; 116; 46; 112; 114; 101; 115; 101; 110; 116; 97; 116; 105; 111; 110; 109; 108; 46; 115; 108; 105; 100; 101; 43; 120; 109; 108]%N)])));
   ([47; 95; 114; 101; 108; 115; 47; 46; 114; 101; 108; 115]%N, mkW 2 1 (Some [mkRel [114; 73; 100; 49]%N [104; 116; 116; 112; 58; 47; 47; 115; 99; 104; 101; 109; 97; 115; 46; 111; 112; 101; 110; 120; 109; 108; 102; 111; 114; 109; 97; 116; 115; 46; 111; 114; 103; 47; 111; 102; 102; 105; 99; 101; 68; 111; 99; 117; 109; 101; 110; 116; 47; 50; 48; 48; 54; 47; 114; 101; 108; 97; 116; 105; 111; 110; 115; 104; 105; 112; 115; 47; 111; 102; 102; 105; 99; 101; 68; 111; 99; 117; 109; 101; 110; 116]%N [112; 112; 116; 47; 112; 114; 101; 115; 101; 110; 116; 97; 116; 105; 111; 110; 46; 120; 109; 108]%N MInt]) None);
   ([47; 112; 112; 116; 47; 112; 114; 101; 115; 101; 110; 116; 97; 116; 105; 111; 110; 46; 120; 109; 108]%N, mkW 3 1 None None);
   ([47; 112; 112; 116; 47; 95; 114; 101; 108; 115; 47; 112; 114; 101; 115; 101; 110; 116; 97; 116; 105; 111; 110; 46; 120; 109; 108; 46; 114; 101; 108; 115]%N, mkW 4 1 (Some [mkRel [114; 73; 100; 55]%N [104; 116; 116; 112; 58; 47; 47; 115; 99; 104; 101; 109; 97; 115; 46; 111; 112; 101; 110; 120; 109; 108; 102; 111; 114; 109; 97; 116; 115; 46; 111; 114; 103; 47; 111; 102; 102; 105; 99; 101; 68; 111; 99; 117; 109; 101; 110; 116; 47; 50; 48; 48; 54; 47; 114; 101; 108; 97; 116; 105; 111; 110; 115; 104; 105; 112; 115; 47; 115; 108; 105; 100; 101]%N [115; 108; 105; 100; 101; 115; 47; 115; 108; 105; 100; 101; 49; 46; 120; 109; 108]%N MInt; mkRel [114; 73; 100; 50]%N [104; 116; 116; 112; 58; 47; 47; 115; 99; 104; 101; 109; 97; 115; 46; 111; 112; 101; 110; 120; 109; 108; 102; 111; 114; 109; 97; 116; 115; 46; 111; 114; 103; 47; 111; 102; 102; 105; 99; 101; 68; 111; 99; 117; 109; 101; 110; 116; 47; 50; 48; 48; 54; 47; 114; 101; 108; 97; 116; 105; 111; 110; 115; 104; 105; 112; 115; 47; 104; 121; 112; 101; 114; 108; 105; 110; 107]%N [104; 116; 116; 112; 115; 58; 47; 47; 101; 120; 97; 109; 112; 108; 101; 46; 99; 111; 109; 47]%N MExt]) None);
   ([47; 112; 112; 116; 47; 115; 108; 105; 100; 101; 115; 47; 115; 108; 105; 100; 101; 49; 46; 120; 109; 108]%N, mkW 5 1 None None);
   ([47; 112; 112; 116; 47; 115; 108; 105; 100; 101; 115; 47; 95; 114; 101; 108; 115; 47; 115; 108; 105; 100; 101; 49; 46; 120; 109; 108; 46; 114; 101; 108; 115]%N, mkW 6 1 (Some [mkRel [114; 73; 100; 49]%N [104; 116; 116; 112; 58; 47; 47; 115; 99; 104; 101; 109; 97; 115; 46; 111; 112; 101; 110; 120; 109; 108; 102; 111; 114; 109; 97; 116; 115; 46; 111; 114; 103; 47; 111; 102; 102; 105; 99; 101; 68; 111; 99; 117; 109; 101; 110; 116; 47; 50; 48; 48; 54; 47; 114; 101; 108; 97; 116; 105; 111; 110; 115; 104; 105; 112; 115; 47; 105; 109; 97; 103; 101]%N [46; 46; 47; 109; 101; 100; 105; 97; 47; 105; 109; 97; 103; 101; 49; 46; 112; 110; 103]%N MInt; mkRel [114; 73; 100; 50]%N [104; 116; 116; 112; 58; 47; 47; 115; 99; 104; 101; 109; 97; 115; 46; 111; 112; 101; 110; 120; 109; 108; 102; 111; 114; 109; 97; 116; 115; 46; 111; 114; 103; 47; 111; 102; 102; 105; 99; 101; 68; 111; 99; 117; 109; 101; 110; 116; 47; 50; 48; 48; 54; 47; 114; 101; 108; 97; 116; 105; 111; 110; 115; 104; 105; 112; 115; 47; 115; 108; 105; 100; 101]%N [47; 112; 112; 116; 47; 115; 108; 105; 100; 101; 115; 47; 46; 47; 115; 108; 105; 100; 101; 49; 46; 120; 109; 108]%N MInt]) None);
   ([47; 112; 112; 116; 47; 109; 101; 100; 105; 97; 47; 105; 109; 97; 103; 101; 49; 46; 112; 110; 103]%N, mkW 7 0 None None);
   ([47; 100; 111; 99; 80; 114; 111; 112; 115; 47; 116; 104; 117; 109; 98; 110; 97; 105; 108; 46; 106; 112; 101; 103]%N, mkW 8 0 None None)].
Definition ex_clash : phys wblob :=
  [([47; 91; 67; 111; 110; 116; 101; 110; 116; 95; 84; 121; 112; 101; 115; 93; 46; 120; 109; 108]%N, mkW 1 1 None (Some ([([114; 101; 108; 115]%N, [97; 112; 112; 108; 105; 99; 97; 116; 105; 111; 110; 47; 118; 110; 100; 46; 111; 112; 101; 110; 120; 109; 108; 102; 111; 114; 109; 97; 116; 115; 45; 112; 97; 99; 107; 97; 103; 101; 46; 114; 101; 108; 97; 116; 105; 111; 110; 115; 104; 105; 112; 115; 43; 120; 109; 108]%N)], [([47; 97; 46; 98; 105; 110]%N, [97; 112; 112; 108; 105; 99; 97; 116; 105; 111; 110; 47; 118; 110; 100; 46; 111; 112; 101; 110; 120; 109; 108; 102; 111; 114; 109; 97; 116; 115; 45; 111; 102; 102; 105; 99; 101; 100; 111; 99; 117; 109; 101; 110; 116; 46; 112; 114; 101; 115; 101; 110; 116; 97; 116; 105; 111; 110; 109; 108; 46; 112; 114; 105; 110; 116; 101; 114; 83; 101; 116; 116; 105; 110; 103; 115]%N); ([47; 98; 46; 98; 105; 110]%N, [97; 112; 112; 108; 105; 99; 97; 116; 105; 111; 110; 47; 118; 110; 100; 46; 111; 112; 101; 110; 120; 109; 108; 102; 111; 114; 109; 97; 116; 115; 45; 111; 102; 102; 105; 99; 101; 100; 111; 99; 117; 109; 101; 110; 116; 46; 115; 112; 114; 101; 97; 100; 115; 104; 101; 101; 116; 109; 108; 46; 112; 114; 105; 110; 116; 101; 114; 83; 101; 116; 116; 105; 110; 103; 115]%N)])));
   ([47; 95; 114; 101; 108; 115; 47; 46; 114; 101; 108; 115]%N, mkW 2 1 (Some [mkRel [114; 73; 100; 49]%N [104; 116; 116; 112; 58; 47; 47; 115; 99; 104; 101; 109; 97; 115; 46; 111; 112; 101; 110; 120; 109; 108; 102; 111; 114; 109; 97; 116; 115; 46; 111; 114; 103; 47; 111; 102; 102; 105; 99; 101; 68; 111; 99; 117; 109; 101; 110; 116; 47; 50; 48; 48; 54; 47; 114; 101; 108; 97; 116; 105; 111; 110; 115; 104; 105; 112; 115; 47; 112; 114; 105; 110; 116; 101; 114; 83; 101; 116; 116; 105; 110; 103; 115]%N [97; 46; 98; 105; 110]%N MInt; mkRel [114; 73; 100; 50]%N [104; 116; 116; 112; 58; 47; 47; 115; 99; 104; 101; 109; 97; 115; 46; 111; 112; 101; 110; 120; 109; 108; 102; 111; 114; 109; 97; 116; 115; 46; 111; 114; 103; 47; 111; 102; 102; 105; 99; 101; 68; 111; 99; 117; 109; 101; 110; 116; 47; 50; 48; 48; 54; 47; 114; 101; 108; 97; 116; 105; 111; 110; 115; 104; 105; 112; 115; 47; 112; 114; 105; 110; 116; 101; 114; 83; 101; 116; 116; 105; 110; 103; 115]%N [98; 46; 98; 105; 110]%N MInt]) None);
   ([47; 97; 46; 98; 105; 110]%N, mkW 3 0 None None);
   ([47; 98; 46; 98; 105; 110]%N, mkW 4 0 None None)].
Definition n_a_bin : str := [47; 97; 46; 98; 105; 110]%N.
Definition n_b_bin : str := [47; 98; 46; 98; 105; 110]%N.
Definition n_ppt_slides_slide1_xml : str := [47; 112; 112; 116; 47; 115; 108; 105; 100; 101; 115; 47; 115; 108; 105; 100; 101; 49; 46; 120; 109; 108]%N.
Definition n_ppt_media_image1_png : str := [47; 112; 112; 116; 47; 109; 101; 100; 105; 97; 47; 105; 109; 97; 103; 101; 49; 46; 112; 110; 103]%N.
Definition n_ppt_presentation_xml : str := [47; 112; 112; 116; 47; 112; 114; 101; 115; 101; 110; 116; 97; 116; 105; 111; 110; 46; 120; 109; 108]%N.
Definition n_docProps_thumbnail_jpeg : str := [47; 100; 111; 99; 80; 114; 111; 112; 115; 47; 116; 104; 117; 109; 98; 110; 97; 105; 108; 46; 106; 112; 101; 103]%N.
Definition n_ppt_slides__rels_slide1_xml_rels : str := [47; 112; 112; 116; 47; 115; 108; 105; 100; 101; 115; 47; 95; 114; 101; 108; 115; 47; 115; 108; 105; 100; 101; 49; 46; 120; 109; 108; 46; 114; 101; 108; 115]%N.
Definition ct_pml_ps : str := [97; 112; 112; 108; 105; 99; 97; 116; 105; 111; 110; 47; 118; 110; 100; 46; 111; 112; 101; 110; 120; 109; 108; 102; 111; 114; 109; 97; 116; 115; 45; 111; 102; 102; 105; 99; 101; 100; 111; 99; 117; 109; 101; 110; 116; 46; 112; 114; 101; 115; 101; 110; 116; 97; 116; 105; 111; 110; 109; 108; 46; 112; 114; 105; 110; 116; 101; 114; 83; 101; 116; 116; 105; 110; 103; 115]%N.
Definition ct_sml_ps : str := [97; 112; 112; 108; 105; 99; 97; 116; 105; 111; 110; 47; 118; 110; 100; 46; 111; 112; 101; 110; 120; 109; 108; 102; 111; 114; 109; 97; 116; 115; 45; 111; 102; 102; 105; 99; 101; 100; 111; 99; 117; 109; 101; 110; 116; 46; 115; 112; 114; 101; 97; 100; 115; 104; 101; 101; 116; 109; 108; 46; 112; 114; 105; 110; 116; 101; 114; 83; 101; 116; 116; 105; 110; 103; 115]%N.
Definition ct_slide : str := [97; 112; 112; 108; 105; 99; 97; 116; 105; 111; 110; 47; 118; 110; 100; 46; 111; 112; 101; 110; 120; 109; 108; 102; 111; 114; 109; 97; 116; 115; 45; 111; 102; 102; 105; 99; 101; 100; 111; 99; 117; 109; 101; 110; 116; 46; 112; 114; 101; 115; 101; 110; 116; 97; 116; 105; 111; 110; 109; 108; 46; 115; 108; 105; 100; 101; 43; 120; 109; 108]%N.
Definition ct_png : str := [105; 109; 97; 103; 101; 47; 112; 110; 103]%N.

Lemma ex_deck_wfb : wfb wenv ex_deck = true.
Proof. vm_compute. reflexivity. Qed.
Lemma ex_deck_wf : wf wenv ex_deck.
Proof. apply wfb_sound, ex_deck_wfb. Qed.
Lemma ex_deck_no_clash : no_default_clash wenv ex_deck.
Proof. apply no_default_clashb_sound; [apply ex_deck_wfb|vm_compute; reflexivity]. Qed.

Lemma ex_clash_wfb : wfb wenv ex_clash = true.
Proof. vm_compute. reflexivity. Qed.

Lemma ex_clash_reach_a : reachable wenv ex_clash n_a_bin.
Proof. eapply r1; [apply r0|]. vm_compute. auto. Qed.

(* regression on the former counter-example: two .bin parts typed as PresentationML and
   SpreadsheetML printer settings both keep their type, each through an Override; the
   table lists three types for bin, so no Default is written for it *)
Lemma ex_clash_regression :
  match load wenv ex_clash with
  | Ok k =>
      content_types_item wenv (iter_parts k)
      = (gen_init_defaults, [(n_a_bin, ct_pml_ps); (n_b_bin, ct_sml_ps)])
      /\ ct_in wenv (save wenv k) n_a_bin = Ok ct_pml_ps
      /\ ct_in wenv (save wenv k) n_b_bin = Ok ct_sml_ps
  | Err _ => False
  end.
Proof. vm_compute. repeat split. Qed.

(* an irregular package: a dangling core-properties relationship, a dangling slide
   relationship whose absent target still has a rels item (leading to an image no loaded
   part refers to), a slide without rels item, an unreferenced thumbnail *)
Definition ex_irregular : phys wblob :=
  [([47; 91; 67; 111; 110; 116; 101; 110; 116; 95; 84; 121; 112; 101; 115; 93; 46; 120; 109; 108]%N, mkW 1 1 None (Some ([([120; 109; 108]%N, [97; 112; 112; 108; 105; 99; 97; 116; 105; 111; 110; 47; 120; 109; 108]%N); ([114; 101; 108; 115]%N, [97; 112; 112; 108; 105; 99; 97; 116; 105; 111; 110; 47; 118; 110; 100; 46; 111; 112; 101; 110; 120; 109; 108; 102; 111; 114; 109; 97; 116; 115; 45; 112; 97; 99; 107; 97; 103; 101; 46; 114; 101; 108; 97; 116; 105; 111; 110; 115; 104; 105; 112; 115; 43; 120; 109; 108]%N); ([80; 78; 71]%N, [105; 109; 97; 103; 101; 47; 112; 110; 103]%N)], [([47; 112; 112; 116; 47; 112; 114; 101; 115; 101; 110; 116; 97; 116; 105; 111; 110; 46; 120; 109; 108]%N, [97; 112; 112; 108; 105; 99; 97; 116; 105; 111; 110; 47; 118; 110; 100; 46; 111; 112; 101; 110; 120; 109; 108; 102; 111; 114; 109; 97; 116; 115; 45; 111; 102; 102; 105; 99; 101; 100; 111; 99; 117; 109; 101; 110; 116; 46; 112; 114; 101; 115; 101; 110; 116; 97; 116; 105; 111; 110; 109; 108; 46; 112; 114; 101; 115; 101; 110; 116; 97; 116; 105; 111; 110; 46; 109; 97; 105; 110; 43; 120; 109; 108]%N); ([47; 80; 80; 84; 47; 115; 108; 105; 100; 101; 115; 47; 115; 108; 105; 100; 101; 49; 46; 88; 77; 76]%N, [97; 112; 112; 108; 105; 99; 97; 116; 105; 111; 110; 47; 118; 110; 100; 46; 111; 112; 101; 110; 120; 109; 108; 102; 111; 114; 109; 97; 116; 115; 45; 111; 102; 102; 105; 99; 101; 100; 111; 99; 117; 109; 101; 110; 116; 46; 112; 114; 101; 115; 101; 110; 116; 97; 116; 105; 111; 110; 109; 108; 46; 115; 108; 105; 100; 101; 43; 120; 109; 108]%N)])));
   ([47; 95; 114; 101; 108; 115; 47; 46; 114; 101; 108; 115]%N, mkW 2 1 (Some [mkRel [114; 73; 100; 49]%N [104; 116; 116; 112; 58; 47; 47; 115; 99; 104; 101; 109; 97; 115; 46; 111; 112; 101; 110; 120; 109; 108; 102; 111; 114; 109; 97; 116; 115; 46; 111; 114; 103; 47; 111; 102; 102; 105; 99; 101; 68; 111; 99; 117; 109; 101; 110; 116; 47; 50; 48; 48; 54; 47; 114; 101; 108; 97; 116; 105; 111; 110; 115; 104; 105; 112; 115; 47; 111; 102; 102; 105; 99; 101; 68; 111; 99; 117; 109; 101; 110; 116]%N [112; 112; 116; 47; 112; 114; 101; 115; 101; 110; 116; 97; 116; 105; 111; 110; 46; 120; 109; 108]%N MInt; mkRel [114; 73; 100; 53]%N [104; 116; 116; 112; 58; 47; 47; 115; 99; 104; 101; 109; 97; 115; 46; 111; 112; 101; 110; 120; 109; 108; 102; 111; 114; 109; 97; 116; 115; 46; 111; 114; 103; 47; 112; 97; 99; 107; 97; 103; 101; 47; 50; 48; 48; 54; 47; 114; 101; 108; 97; 116; 105; 111; 110; 115; 104; 105; 112; 115; 47; 109; 101; 116; 97; 100; 97; 116; 97; 47; 99; 111; 114; 101; 45; 112; 114; 111; 112; 101; 114; 116; 105; 101; 115]%N [100; 111; 99; 80; 114; 111; 112; 115; 47; 99; 111; 114; 101; 46; 120; 109; 108]%N MInt]) None);
   ([47; 112; 112; 116; 47; 112; 114; 101; 115; 101; 110; 116; 97; 116; 105; 111; 110; 46; 120; 109; 108]%N, mkW 3 1 None None);
   ([47; 112; 112; 116; 47; 95; 114; 101; 108; 115; 47; 112; 114; 101; 115; 101; 110; 116; 97; 116; 105; 111; 110; 46; 120; 109; 108; 46; 114; 101; 108; 115]%N, mkW 4 1 (Some [mkRel [114; 73; 100; 55]%N [104; 116; 116; 112; 58; 47; 47; 115; 99; 104; 101; 109; 97; 115; 46; 111; 112; 101; 110; 120; 109; 108; 102; 111; 114; 109; 97; 116; 115; 46; 111; 114; 103; 47; 111; 102; 102; 105; 99; 101; 68; 111; 99; 117; 109; 101; 110; 116; 47; 50; 48; 48; 54; 47; 114; 101; 108; 97; 116; 105; 111; 110; 115; 104; 105; 112; 115; 47; 115; 108; 105; 100; 101]%N [115; 108; 105; 100; 101; 115; 47; 115; 108; 105; 100; 101; 49; 46; 120; 109; 108]%N MInt; mkRel [114; 73; 100; 56]%N [104; 116; 116; 112; 58; 47; 47; 115; 99; 104; 101; 109; 97; 115; 46; 111; 112; 101; 110; 120; 109; 108; 102; 111; 114; 109; 97; 116; 115; 46; 111; 114; 103; 47; 111; 102; 102; 105; 99; 101; 68; 111; 99; 117; 109; 101; 110; 116; 47; 50; 48; 48; 54; 47; 114; 101; 108; 97; 116; 105; 111; 110; 115; 104; 105; 112; 115; 47; 115; 108; 105; 100; 101]%N [115; 108; 105; 100; 101; 115; 47; 78; 85; 76; 76]%N MInt; mkRel [114; 73; 100; 50]%N [104; 116; 116; 112; 58; 47; 47; 115; 99; 104; 101; 109; 97; 115; 46; 111; 112; 101; 110; 120; 109; 108; 102; 111; 114; 109; 97; 116; 115; 46; 111; 114; 103; 47; 111; 102; 102; 105; 99; 101; 68; 111; 99; 117; 109; 101; 110; 116; 47; 50; 48; 48; 54; 47; 114; 101; 108; 97; 116; 105; 111; 110; 115; 104; 105; 112; 115; 47; 104; 121; 112; 101; 114; 108; 105; 110; 107]%N [104; 116; 116; 112; 115; 58; 47; 47; 101; 120; 97; 109; 112; 108; 101; 46; 99; 111; 109; 47]%N MExt]) None);
   ([47; 112; 112; 116; 47; 115; 108; 105; 100; 101; 115; 47; 115; 108; 105; 100; 101; 49; 46; 120; 109; 108]%N, mkW 5 1 None None);
   ([47; 112; 112; 116; 47; 115; 108; 105; 100; 101; 115; 47; 95; 114; 101; 108; 115; 47; 78; 85; 76; 76; 46; 114; 101; 108; 115]%N, mkW 6 1 (Some [mkRel [114; 73; 100; 49]%N [104; 116; 116; 112; 58; 47; 47; 115; 99; 104; 101; 109; 97; 115; 46; 111; 112; 101; 110; 120; 109; 108; 102; 111; 114; 109; 97; 116; 115; 46; 111; 114; 103; 47; 111; 102; 102; 105; 99; 101; 68; 111; 99; 117; 109; 101; 110; 116; 47; 50; 48; 48; 54; 47; 114; 101; 108; 97; 116; 105; 111; 110; 115; 104; 105; 112; 115; 47; 105; 109; 97; 103; 101]%N [46; 46; 47; 109; 101; 100; 105; 97; 47; 105; 109; 97; 103; 101; 49; 46; 112; 110; 103]%N MInt]) None);
   ([47; 112; 112; 116; 47; 109; 101; 100; 105; 97; 47; 105; 109; 97; 103; 101; 49; 46; 112; 110; 103]%N, mkW 7 0 None None);
   ([47; 100; 111; 99; 80; 114; 111; 112; 115; 47; 116; 104; 117; 109; 98; 110; 97; 105; 108; 46; 106; 112; 101; 103]%N, mkW 8 0 None None)].
Definition n_ppt_slides_NULL : str := [47; 112; 112; 116; 47; 115; 108; 105; 100; 101; 115; 47; 78; 85; 76; 76]%N.
Lemma ex_irregular_names : forall n, In n (part_names wenv ex_irregular) -> part_name n.
Proof.
  assert (H : forallb part_nameb (part_names wenv ex_irregular) = true) by (vm_compute; reflexivity).
  intros n Hn. apply part_nameb_sound. exact (proj1 (forallb_forall _ _) H n Hn).
Qed.

Lemma ex_irregular_reg_wfb : wfb wenv (regularise wenv ex_irregular) = true.
Proof. vm_compute. reflexivity. Qed.

Lemma ex_irregular_reg_wf : wf wenv (regularise wenv ex_irregular).
Proof. exact (wfb_sound wenv _ ex_irregular_reg_wfb). Qed.

(** ---- C16: rename_slide_parts ---- *)

Lemma rename_map_nth rs rids : forall i m, rename_map rs rids i = Ok m ->
  forall j rid, nth_error rids j = Some rid ->
    exists r, find (fun r => str_eqb (l_id r) rid) rs = Some r /\ l_ext r = false /\
              nth_error m j = Some (l_target r, slide_name (i + j)).
Proof.
  induction rids as [|rid0 rids IH]; intros i m H j rid Hj; [destruct j; discriminate|].
  simpl in H. destruct (find (fun r => str_eqb (l_id r) rid0) rs) as [r0|] eqn:Ef; [|discriminate].
  destruct (l_ext r0) eqn:Ee; [discriminate|].
  destruct (rename_map rs rids (S i)) as [m0|] eqn:Em; simpl in H; [|discriminate]. inversion H; subst.
  destruct j as [|j]; simpl in Hj.
  - inversion Hj; subst. exists r0. repeat split; auto. simpl. rewrite Nat.add_0_r. reflexivity.
  - destruct (IH (S i) m0 Em j rid Hj) as (r & Hr & He & Hn). exists r. repeat split; auto.
    simpl. rewrite Hn. f_equal. f_equal. f_equal. lia.
Qed.

Lemma rename_map_err rs rids : forall i e, rename_map rs rids i = Err e ->
  (e = KeyErr /\ exists rid, In rid rids /\ find (fun r => str_eqb (l_id r) rid) rs = None) \/
  (e = ValueErr /\ exists rid r, In rid rids /\ find (fun r => str_eqb (l_id r) rid) rs = Some r /\ l_ext r = true).
Proof.
  induction rids as [|rid0 rids IH]; intros i e H; [discriminate|]. simpl in H.
  destruct (find (fun r => str_eqb (l_id r) rid0) rs) as [r0|] eqn:Ef.
  - destruct (l_ext r0) eqn:Ee.
    + inversion H; subst. right. split; auto. exists rid0, r0. simpl; auto.
    + destruct (rename_map rs rids (S i)) as [m0|e0] eqn:Em; simpl in H; [discriminate|].
      destruct (IH (S i) e0 Em) as [(He & rid & Hin & Hf)|(He & rid & r & Hin & Hf & Hx)]; inversion H; subst.
      * left. split; auto. exists rid. simpl; auto.
      * right. split; auto. exists rid, r. simpl; auto.
  - inversion H; subst. left. split; auto. exists rid0. simpl; auto.
Qed.

Lemma lookup_rev_NoDup {V} k (d : list (str * V)) : NoDup (map fst d) -> lookup k (rev d) = lookup k d.
Proof.
  intros H. apply lookup_perm; [apply Permutation_sym, Permutation_rev|].
  rewrite map_rev. apply NoDup_rev. exact H.
Qed.

(** when the listed relationships lead to distinct parts, the j-th listed slide part is
    renamed /ppt/slides/slide(j+1).xml, whatever it was called before *)
Lemma rename_in_order rs rids m : rename_map rs rids 1 = Ok m -> NoDup (map fst m) ->
  forall j rid, nth_error rids j = Some rid ->
    exists r, find (fun r => str_eqb (l_id r) rid) rs = Some r /\ l_ext r = false /\
              renamed m (l_target r) = slide_name (S j).
Proof.
  intros H Hnd j rid Hj. destruct (rename_map_nth rs rids 1 m H j rid Hj) as (r & Hr & He & Hn).
  exists r. repeat split; auto. unfold renamed. rewrite lookup_rev_NoDup by auto.
  rewrite (lookup_NoDup_In (l_target r) (slide_name (1 + j)) m Hnd); [reflexivity|].
  eapply nth_error_In; eauto.
Qed.

Definition s_rId7 : str := [114; 73; 100; 55]%N.

Lemma ex_deck_rename :
  match load_presentation wenv ex_deck with
  | Ok (k, main) =>
      exists m, rename_map (p_rels main) [s_rId7] 1 = Ok m /\ NoDup (map fst m) /\
                renamed m n_ppt_slides_slide1_xml = slide_name 1
  | Err _ => False
  end.
Proof.
  vm_compute. eexists. split; [reflexivity|]. split; [|reflexivity].
  repeat constructor; simpl; tauto.
Qed.
