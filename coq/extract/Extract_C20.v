From Coq Require Import Extraction ExtrOcamlBasic.
From V.model Require Import EnumLibRun.
Extraction Language OCaml.
Cd "extract".
Extraction "c20.ml" run_c20.
Cd "..".
