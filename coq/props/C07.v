(** C07 (stub while the check is being built). *)
From V.lib Require Import Prelude.
From V.model Require Import ChartData.
From V.proofs Require Import ChartData_proofs.

Theorem C07_stub : True.
Proof. exact stub_true. Qed.
Print Assumptions C07_stub.
