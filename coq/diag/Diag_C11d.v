(** Diagnostics for C11, round trip of the custom classes lifted to rows ( proofs/C11_rows_custom_rt.v ): ids of the
    rows whose round trip is covered by a class-level theorem ( 7010 ), of the xsd:double rows, covered only as
    far as repr is modelled ( 7011 ), and of the rows judged neither here nor by RT_rows ( 7012 ).
    No obligations here. *)
From V.lib Require Import Prelude PyFloat PyVal.
From V.model Require Import SimpleTypeLib.
From V.proofs Require Import C11_rows_custom_rt.
From V.gen Require Import GenC11.
Eval vm_compute in (7010%N :: map fst (filter (fun p => N.eqb (snd p) 0) custom_rt_verdicts)).
Eval vm_compute in (7011%N :: map fst (filter (fun p => N.eqb (snd p) 3) custom_rt_verdicts)).
Eval vm_compute in (7012%N :: rt_rows_unjudged).
