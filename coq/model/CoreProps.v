(** C18 -- core document properties (pptx/oxml/coreprops.py, pptx/parts/coreprops.py,
    pptx/package.py core_properties).  Executable definitions only.

    The cp:coreProperties element is a list of leaf children in document order.  A child
    carries its tag (one of the 15 declared child tags, or something else), its text
    (absent text and empty text are both the empty string: every reader treats them alike)
    and whether it carries the attribute xsi:type = dcterms:W3CDTF.

    Platform behaviour transcribed here (tied by the C18 correspondence, not proved about
    CPython / glibc / lxml):
    - the regular expression _w3cdtf_pattern used with re.match: the digit class matches
      every Unicode decimal digit, the dollar sign also matches before one final newline,
      T and Z are case sensitive; int() on each group; then the field ranges of the
      datetime constructor (ValueError);
    - aware.astimezone(utc) and datetime + timedelta raise OverflowError outside years
      1..9999;
    - int() on text: Unicode decimal digits, single underscores between digits, optional
      sign, surrounding white space, at most 4300 digits; str() of an int refuses more
      than 4300 digits;
    - lxml refuses text containing code points that are not XML characters (ValueError)
      after the child element has already been created by get_or_add. *)
From V.lib Require Import Prelude Calendar.

(** ---- the 15 properties ---- *)

Inductive prop :=
  | Author | Category | Comments | ContentStatus | Created | Identifier | Keywords
  | Language | LastModifiedBy | LastPrinted | Modified | Revision | Subject | Title | Version.

Definition all_props : list prop :=
  [Author; Category; Comments; ContentStatus; Created; Identifier; Keywords;
   Language; LastModifiedBy; LastPrinted; Modified; Revision; Subject; Title; Version].

Definition prop_idx (p : prop) : N :=
  match p with
  | Author => 0 | Category => 1 | Comments => 2 | ContentStatus => 3 | Created => 4
  | Identifier => 5 | Keywords => 6 | Language => 7 | LastModifiedBy => 8
  | LastPrinted => 9 | Modified => 10 | Revision => 11 | Subject => 12 | Title => 13
  | Version => 14
  end%N.

Definition prop_eqb (p q : prop) : bool := N.eqb (prop_idx p) (prop_idx q).

Inductive kind := KText | KDate | KRev.
Definition kind_of (p : prop) : kind :=
  match p with
  | Created | LastPrinted | Modified => KDate
  | Revision => KRev
  | _ => KText
  end.

(** Qualified child tag of each property (documentation and wire only). *)
Definition tag_qname (p : prop) : str :=
  match p with
  | Author => [100; 99; 58; 99; 114; 101; 97; 116; 111; 114]                      (* dc:creator *)
  | Category => [99; 112; 58; 99; 97; 116; 101; 103; 111; 114; 121]                (* cp:category *)
  | Comments => [100; 99; 58; 100; 101; 115; 99; 114; 105; 112; 116; 105; 111; 110] (* dc:description *)
  | ContentStatus => [99; 112; 58; 99; 111; 110; 116; 101; 110; 116; 83; 116; 97; 116; 117; 115]
  | Created => [100; 99; 116; 101; 114; 109; 115; 58; 99; 114; 101; 97; 116; 101; 100]
  | Identifier => [100; 99; 58; 105; 100; 101; 110; 116; 105; 102; 105; 101; 114]
  | Keywords => [99; 112; 58; 107; 101; 121; 119; 111; 114; 100; 115]
  | Language => [100; 99; 58; 108; 97; 110; 103; 117; 97; 103; 101]
  | LastModifiedBy => [99; 112; 58; 108; 97; 115; 116; 77; 111; 100; 105; 102; 105; 101; 100; 66; 121]
  | LastPrinted => [99; 112; 58; 108; 97; 115; 116; 80; 114; 105; 110; 116; 101; 100]
  | Modified => [100; 99; 116; 101; 114; 109; 115; 58; 109; 111; 100; 105; 102; 105; 101; 100]
  | Revision => [99; 112; 58; 114; 101; 118; 105; 115; 105; 111; 110]
  | Subject => [100; 99; 58; 115; 117; 98; 106; 101; 99; 116]
  | Title => [100; 99; 58; 116; 105; 116; 108; 101]
  | Version => [99; 112; 58; 118; 101; 114; 115; 105; 111; 110]
  end%N.

(** ---- element state ---- *)

Inductive ctag := TProp (p : prop) | TOther (n : N).

Record child := mkChild { c_tag : ctag; c_text : str; c_xsi : bool }.

Definition cpstate := list child.

Definition has_tag (p : prop) (c : child) : bool :=
  match c_tag c with TProp q => prop_eqb p q | TOther _ => false end.

(** ZeroOrOne getter: the first child carrying the tag. *)
Definition find_child (st : cpstate) (p : prop) : option child := find (has_tag p) st.

Definition new_child (p : prop) : child := mkChild (TProp p) [] false.

(** get_or_add_x() followed by a modification [f] of the element returned: the first child
    with the tag, or a new child appended at the end (every declaration has successors=()). *)
Fixpoint upd (p : prop) (f : child -> child) (st : cpstate) : cpstate :=
  match st with
  | [] => [f (new_child p)]
  | c :: r => if has_tag p c then f c :: r else c :: upd p f r
  end.

Definition set_c_text (s : str) (c : child) : child := mkChild (c_tag c) s (c_xsi c).
Definition same_child (c : child) : child := c.

(** ---- Python values handed to the setters ---- *)

(** A datetime.datetime: wall-clock fields, microsecond, utcoffset in seconds when aware. *)
Record pydt := mkPydt { p_dt : datetime; p_us : Z; p_tz : option Z }.

Inductive pyv :=
  | VStr (s : str)
  | VInt (z : Z)
  | VBool (b : bool)
  | VNone
  | VDt (d : pydt)
  | VDate (y m d : Z)        (* datetime.date that is not a datetime *)
  | VOther (s : str).        (* any other object, given by its str() *)

Definition valid_pydt (d : pydt) : bool :=
  valid_datetime (p_dt d) && in_py_range (p_dt d) &&
  (0 <=? p_us d)%Z && (p_us d <? 1000000)%Z &&
  match p_tz d with None => true | Some o => (-86400 <? o)%Z && (o <? 86400)%Z end.

(** ---- decimal text ---- *)

(** Zero points of the Unicode decimal-digit (Nd) blocks, Unicode 15.0 (CPython 3.12). *)
Definition nd_zeros : list N :=
  [48; 1632; 1776; 1984; 2406; 2534; 2662; 2790; 2918; 3046; 3174; 3302; 3430; 3558; 3664;
   3792; 3872; 4160; 4240; 6112; 6160; 6470; 6608; 6784; 6800; 6992; 7088; 7232; 7248;
   42528; 43216; 43264; 43472; 43504; 43600; 44016; 65296; 66720; 68912; 69734; 69872;
   69942; 70096; 70384; 70736; 70864; 71248; 71360; 71472; 71904; 72016; 72784; 73040;
   73120; 73552; 92768; 92864; 93008; 120782; 120792; 120802; 120812; 120822; 123200;
   123632; 124144; 125264; 130032]%N.

Fixpoint nd_lookup (zs : list N) (c : N) : option Z :=
  match zs with
  | [] => None
  | z :: r => if ((z <=? c) && (c <? z + 10))%N then Some (Z.of_N (c - z)) else nd_lookup r c
  end.

(** Value of a Unicode decimal digit (regex digit class, int()). *)
Definition udigit_val (c : N) : option Z :=
  if is_digit c then Some (Z.of_N (c - 48)) else nd_lookup nd_zeros c.
Definition is_udigit (c : N) : bool :=
  match udigit_val c with Some _ => true | None => false end.

(** White space skipped by int(): C isspace on ASCII, str.isspace above ASCII. *)
Definition int_space (c : N) : bool :=
  ((9 <=? c) && (c <=? 13) || (c =? 32) || (c =? 133) || (c =? 160) || (c =? 5760) ||
   (8192 <=? c) && (c <=? 8202) || (c =? 8232) || (c =? 8233) || (c =? 8239) ||
   (c =? 8287) || (c =? 12288))%N.

Definition max_str_digits : N := 4300%N.

(** Digits with single underscores between them; [prev] = the previous character was a digit. *)
Fixpoint digits_us (s : str) (prev : bool) (acc : Z) (cnt : N) : option (Z * N) :=
  match s with
  | [] => if prev then Some (acc, cnt) else None
  | c :: r =>
      match udigit_val c with
      | Some d => digits_us r true (10 * acc + d)%Z (cnt + 1)%N
      | None => if (c =? 95)%N && prev then digits_us r false acc cnt else None
      end
  end.

Definition strip_int_space (s : str) : str :=
  rev (drop_while int_space (rev (drop_while int_space s))).

(** int(text): None stands for ValueError. *)
Definition split_sign (body : str) : bool * str :=
  match body with
  | c :: r => if (c =? 43)%N then (false, r) else if (c =? 45)%N then (true, r) else (false, body)
  | [] => (false, body)
  end.

Definition py_int (s : str) : option Z :=
  let '(neg, ds) := split_sign (strip_int_space s) in
  match digits_us ds false 0%Z 0%N with
  | Some (v, cnt) =>
      if (max_str_digits <? cnt)%N then None else Some (if neg then (- v)%Z else v)
  | None => None
  end.

(** str(int): Err ValueErr beyond 4300 digits. *)
Definition py_str_int (z : Z) : res str :=
  let ds := dec_of_N (Z.abs_N z) in
  if (max_str_digits <? N.of_nat (length ds))%N then Err ValueErr
  else Ok (if (z <? 0)%Z then 45%N :: ds else ds).

Definition digit_char (v : Z) : N := (48 + Z.to_N v)%N.
Definition pad2 (v : Z) : str := [digit_char (v / 10); digit_char (v mod 10)].
Definition pad4 (v : Z) : str :=
  [digit_char (v / 1000); digit_char (v / 100 mod 10); digit_char (v / 10 mod 10);
   digit_char (v mod 10)].
Definition pad6 (v : Z) : str :=
  [digit_char (v / 100000); digit_char (v / 10000 mod 10); digit_char (v / 1000 mod 10);
   digit_char (v / 100 mod 10); digit_char (v / 10 mod 10); digit_char (v mod 10)].

Definition c_dash : N := 45%N.
Definition c_colon : N := 58%N.
Definition c_T : N := 84%N.
Definition c_Z : N := 90%N.
Definition c_plus : N := 43%N.

(** The text written by _set_element_datetime: percent-formatting with 04d and 02d fields
    (years 1..9999) and the suffix Z. *)
Definition fmt_dt (t : datetime) : str :=
  pad4 (dt_year t) ++ c_dash :: pad2 (dt_month t) ++ c_dash :: pad2 (dt_day t) ++
  c_T :: pad2 (dt_hour t) ++ c_colon :: pad2 (dt_minute t) ++ c_colon :: pad2 (dt_second t) ++ [c_Z].

(** str(datetime) = isoformat with a blank; used only when a datetime is assigned to a text
    property. *)
Definition show_offset (o : Z) : str :=
  let a := Z.abs o in
  (if (o <? 0)%Z then c_dash else c_plus) :: pad2 (a / 3600) ++ c_colon :: pad2 (a mod 3600 / 60) ++
  (if (a mod 60 =? 0)%Z then [] else c_colon :: pad2 (a mod 60)).
Definition py_str_dt (d : pydt) : str :=
  let t := p_dt d in
  pad4 (dt_year t) ++ c_dash :: pad2 (dt_month t) ++ c_dash :: pad2 (dt_day t) ++
  32%N :: pad2 (dt_hour t) ++ c_colon :: pad2 (dt_minute t) ++ c_colon :: pad2 (dt_second t) ++
  (if (p_us d =? 0)%Z then [] else 46%N :: pad6 (p_us d)) ++
  match p_tz d with None => [] | Some o => show_offset o end.

Definition s_True : str := [84; 114; 117; 101]%N.
Definition s_False : str := [70; 97; 108; 115; 101]%N.
Definition s_None : str := [78; 111; 110; 101]%N.

Definition py_str (v : pyv) : res str :=
  match v with
  | VStr s => Ok s
  | VInt z => py_str_int z
  | VBool b => Ok (if b then s_True else s_False)
  | VNone => Ok s_None
  | VDt d => Ok (py_str_dt d)
  | VDate y m d => Ok (pad4 y ++ c_dash :: pad2 m ++ c_dash :: pad2 d)
  | VOther s => Ok s
  end.

(** Code points lxml accepts in text (XML 1.0 Char). *)
Definition xml_ok (c : N) : bool :=
  ((c =? 9) || (c =? 10) || (c =? 13) || (32 <=? c) && (c <=? 55295) ||
   (57344 <=? c) && (c <=? 65533) || (65536 <=? c) && (c <=? 1114111))%N.

(** ---- setters ---- *)

(** _set_element_text *)
Definition set_text (p : prop) (v : pyv) (st : cpstate) : cpstate * res unit :=
  match py_str v with
  | Err e => (st, Err e)
  | Ok s =>
      if (255 <? length s)%nat then (st, Err ValueErr)
      else if forallb xml_ok s then (upd p (set_c_text s) st, Ok tt)
      else (upd p (set_c_text []) st, Err ValueErr)
  end.

Definition needs_xsi (p : prop) : bool :=
  match p with Created | Modified => true | _ => false end.

(** value.astimezone(timezone.utc).replace(tzinfo=None) for an aware value (utcoffset in
    whole seconds); a naive value is taken as it is. *)
Definition to_utc_naive (d : pydt) : res datetime :=
  match p_tz d with
  | None => Ok (p_dt d)
  | Some o =>
      let r := add_seconds (p_dt d) (- o)%Z in
      if in_py_range r then Ok r else Err OverflowErr
  end.

(** _set_element_datetime: the conversion happens before get_or_add. *)
Definition set_datetime (p : prop) (v : pyv) (st : cpstate) : cpstate * res unit :=
  match v with
  | VDt d =>
      match to_utc_naive d with
      | Ok t => (upd p (fun c => mkChild (c_tag c) (fmt_dt t) (c_xsi c || needs_xsi p)) st, Ok tt)
      | Err e => (st, Err e)
      end
  | _ => (st, Err ValueErr)
  end.

(** revision_number setter *)
Definition set_revision (v : pyv) (st : cpstate) : cpstate * res unit :=
  let write (r : res str) :=
    match r with
    | Ok s => (upd Revision (set_c_text s) st, Ok tt)
    | Err e => (upd Revision same_child st, Err e)
    end in
  match v with
  | VInt z => if (z <? 1)%Z then (st, Err ValueErr) else write (py_str_int z)
  | _ => (st, Err ValueErr)
  end.

Definition set_prop (p : prop) (v : pyv) (st : cpstate) : cpstate * res unit :=
  match kind_of p with
  | KText => set_text p v st
  | KDate => set_datetime p v st
  | KRev => set_revision v st
  end.

(** ---- reading W3CDTF text ---- *)

(** _offset_dt: sign, two digits, colon, two digits; plus means subtract. *)
Definition offset_dt (t : datetime) (off : str) : res datetime :=
  match off with
  | [sg; h1; h2; co; m1; m2] =>
      if ((sg =? 43) || (sg =? 45))%N && (co =? 58)%N then
        match udigit_val h1, udigit_val h2, udigit_val m1, udigit_val m2 with
        | Some a, Some b, Some c, Some d =>
            let sf := if (sg =? 43)%N then (-1)%Z else 1%Z in
            let hours := ((a * 10 + b) * sf)%Z in
            let minutes := ((c * 10 + d) * sf)%Z in
            let r := add_seconds t (hours * 3600 + minutes * 60)%Z in
            if in_py_range r then Ok r else Err OverflowErr
        | _, _, _, _ => Err ValueErr
        end
      else Err ValueErr
  | _ => Err ValueErr
  end.

(** The dollar sign: end of text, or one final newline. *)
Definition is_nil (s : str) : bool := match s with [] => true | _ => false end.
Definition at_end (s : str) : bool :=
  match s with
  | [] => true
  | c :: r => (c =? 10)%N && is_nil r
  end.

(** int() of a two-digit group (any Unicode decimal digits). *)
Definition two_ud (a b : N) : option Z :=
  match udigit_val a, udigit_val b with
  | Some x, Some y => Some (10 * x + y)%Z
  | _, _ => None
  end.

(** Optional zone designator, then the end.  None: no match.  Some None: nothing or Z.
    Some (Some off): a signed hh:mm designator (six characters). *)
Definition tz_end (s : str) : option (option str) :=
  if at_end s then Some None
  else match s with
       | c :: r =>
           if (c =? 90)%N then (if at_end r then Some None else None)
           else if ((c =? 43) || (c =? 45))%N then
             match r with
             | h1 :: h2 :: co :: m1 :: m2 :: r' =>
                 if is_udigit h1 && is_udigit h2 && (co =? 58)%N && is_udigit m1 && is_udigit m2 &&
                    at_end r'
                 then Some (Some [c; h1; h2; co; m1; m2]) else None
             | _ => None
             end
           else None
       | [] => None
       end.

(** Optional fraction (a dot and at least one digit), then zone and end. *)
Definition frac_tz_end (s : str) : option (option str) :=
  match s with
  | c :: r =>
      if (c =? 46)%N && negb (is_nil (take_while is_udigit r))
      then tz_end (drop_while is_udigit r)
      else tz_end s
  | [] => tz_end s
  end.

(** Optional seconds group (colon, two digits, optional fraction), then zone and end. *)
Definition sec_part (s : str) : option (Z * option str) :=
  match s with
  | c :: a :: b :: r =>
      if (c =? 58)%N then
        match two_ud a b with
        | Some v => match frac_tz_end r with Some z => Some (v, z) | None => None end
        | None => None
        end
      else match tz_end s with Some z => Some (0%Z, z) | None => None end
  | _ => match tz_end s with Some z => Some (0%Z, z) | None => None end
  end.

(** The groups of _w3cdtf_pattern: year, month, day, hour, minute, second (defaults applied)
    and the zone designator, stage by stage; every optional group is either matched or the
    text must end there. *)
Definition grp := (datetime * option str)%type.

Definition after_day (y mo dd : Z) (r3 : str) : option grp :=
  if at_end r3 then Some (mkDT y mo dd 0 0 0, None)
  else match r3 with
       | k3 :: h1 :: h2 :: k4 :: n1 :: n2 :: r4 =>
           if (k3 =? 84)%N && (k4 =? 58)%N then
             match two_ud h1 h2, two_ud n1 n2, sec_part r4 with
             | Some hh, Some mi, Some (sec, z) => Some (mkDT y mo dd hh mi sec, z)
             | _, _, _ => None
             end
           else None
       | _ => None
       end.

Definition after_month (y mo : Z) (r2 : str) : option grp :=
  if at_end r2 then Some (mkDT y mo 1 0 0 0, None)
  else match r2 with
       | k :: d1 :: d2 :: r3 =>
           if (k =? 45)%N then
             match two_ud d1 d2 with Some dd => after_day y mo dd r3 | None => None end
           else None
       | _ => None
       end.

Definition after_year (y : Z) (r1 : str) : option grp :=
  if at_end r1 then Some (mkDT y 1 1 0 0 0, None)
  else match r1 with
       | k :: m1 :: m2 :: r2 =>
           if (k =? 45)%N then
             match two_ud m1 m2 with Some mo => after_month y mo r2 | None => None end
           else None
       | _ => None
       end.

Definition w3c_groups (s : str) : option grp :=
  match s with
  | y1 :: y2 :: y3 :: y4 :: r1 =>
      match udigit_val y1, udigit_val y2, udigit_val y3, udigit_val y4 with
      | Some a, Some b, Some c, Some d => after_year (10 * (10 * (10 * a + b) + c) + d)%Z r1
      | _, _, _, _ => None
      end
  | _ => None
  end.

(** _parse_W3CDTF_to_datetime *)
Definition parse_w3cdtf (s : str) : res datetime :=
  match w3c_groups s with
  | None => Err ValueErr
  | Some (t, z) =>
      if valid_datetime t && in_py_range t then
        match z with
        | None => Ok t
        | Some off => offset_dt t off
        end
      else Err ValueErr
  end.

(** ---- readers ---- *)

Inductive outv := OStr (s : str) | ODt (d : option datetime) | OInt (z : Z).

Definition get_text (st : cpstate) (p : prop) : str :=
  match find_child st p with Some c => c_text c | None => [] end.

(** _datetime_of_element: ValueError is swallowed, anything else propagates. *)
Definition get_datetime (st : cpstate) (p : prop) : res (option datetime) :=
  match find_child st p with
  | None => Ok None
  | Some c =>
      match parse_w3cdtf (c_text c) with
      | Ok t => Ok (Some t)
      | Err ValueErr => Ok None
      | Err e => Err e
      end
  end.

Definition get_revision (st : cpstate) : Z :=
  match find_child st Revision with
  | None => 0%Z
  | Some c =>
      match py_int (c_text c) with
      | Some z => if (z <? 0)%Z then 0%Z else z
      | None => 0%Z
      end
  end.

Definition get_prop (st : cpstate) (p : prop) : res outv :=
  match kind_of p with
  | KText => Ok (OStr (get_text st p))
  | KDate => match get_datetime st p with Ok d => Ok (ODt d) | Err e => Err e end
  | KRev => Ok (OInt (get_revision st))
  end.

(** ---- package level ---- *)

Definition s_default_title : str :=
  [80; 111; 119; 101; 114; 80; 111; 105; 110; 116; 32; 80; 114; 101; 115; 101; 110; 116; 97; 116; 105; 111; 110]%N.
Definition s_python_pptx : str := [112; 121; 116; 104; 111; 110; 45; 112; 112; 116; 120]%N.

(** CorePropertiesPart.default with the clock reading [now]. *)
Definition default_part (now : pydt) : cpstate :=
  let st := fst (set_prop Title (VStr s_default_title) []) in
  let st := fst (set_prop LastModifiedBy (VStr s_python_pptx) st) in
  let st := fst (set_prop Revision (VInt 1) st) in
  fst (set_prop Modified (VDt now) st).

(** Package.core_properties: the related part, or a default one which is then related. *)
Definition core_properties (pk : option cpstate) (now : pydt) : option cpstate * cpstate :=
  match pk with
  | Some st => (pk, st)
  | None => let st := default_part now in (Some st, st)
  end.

(** ---- validity against opc-coreProperties.xsd (my reading of the schema) ---- *)

(** CT_CoreProperties is an xsd:all of the 15 children, each at most once, any order.
    cp:lastPrinted is xsd:dateTime; dcterms:created / dcterms:modified carrying
    xsi:type = dcterms:W3CDTF are gYear, gYearMonth, date or dateTime; without that
    attribute their type is dc SimpleLiteral (any text); everything else is a string. *)

Definition xml_space (c : N) : bool := ((c =? 9) || (c =? 10) || (c =? 13) || (c =? 32))%N.
Definition collapse_ws (s : str) : str :=
  rev (drop_while xml_space (rev (drop_while xml_space s))).

Definition two_digits (a b : N) : option Z :=
  if is_digit a && is_digit b then Some (Z.of_N ((a - 48) * 10 + (b - 48))) else None.

(** Time-zone suffix: nothing, Z, or a signed hh:mm up to 14:00. *)
Definition xsd_tz (s : str) : bool :=
  match s with
  | [] => true
  | [90%N] => true
  | [sg; h1; h2; 58%N; m1; m2] =>
      ((sg =? 43) || (sg =? 45))%N &&
      match two_digits h1 h2, two_digits m1 m2 with
      | Some h, Some m => ((m <=? 59) && ((h <=? 13) || ((h =? 14) && (m =? 0))))%Z
      | _, _ => false
      end
  | _ => false
  end.

(** Year: optional minus, at least four digits, no leading zero beyond four, not 0000. *)
Definition xsd_year (s : str) : option (Z * str) :=
  let body := match s with c :: r => if (c =? 45)%N then r else s | [] => s end in
  let ds := take_while is_digit body in
  let rest := drop_while is_digit body in
  let n := length ds in
  if (n <? 4)%nat then None
  else if (4 <? n)%nat && match ds with 48%N :: _ => true | _ => false end then None
  else let y := Z.of_N (dec_value ds) in
       if (y =? 0)%Z then None else Some (y, rest).

Definition xsd_month_day (y : Z) (m1 m2 d1 d2 : N) : bool :=
  match two_digits m1 m2, two_digits d1 d2 with
  | Some m, Some d => valid_date (y, m, d)
  | _, _ => false
  end.

Definition xsd_frac_tz (s : str) : bool :=
  match s with
  | 46%N :: r =>
      let fs := take_while is_digit r in
      negb (Nat.eqb (length fs) 0) && xsd_tz (drop_while is_digit r)
  | _ => xsd_tz s
  end.

Definition xsd_time (h1 h2 mi1 mi2 s1 s2 : N) (tail : str) : bool :=
  match two_digits h1 h2, two_digits mi1 mi2, two_digits s1 s2 with
  | Some h, Some mi, Some sec =>
      (((h <=? 23) && (mi <=? 59) && (sec <=? 59))%Z ||
       ((h =? 24) && (mi =? 0) && (sec =? 0))%Z &&
         match tail with
         | 46%N :: r => forallb (N.eqb 48) (take_while is_digit r)
         | _ => true
         end)
      && xsd_frac_tz tail
  | _, _, _ => false
  end.

Definition xsd_dateTime (s0 : str) : bool :=
  match xsd_year (collapse_ws s0) with
  | Some (y, 45%N :: m1 :: m2 :: 45%N :: d1 :: d2 :: 84%N :: h1 :: h2 :: 58%N :: mi1 :: mi2 :: 58%N :: s1 :: s2 :: tail) =>
      xsd_month_day y m1 m2 d1 d2 && xsd_time h1 h2 mi1 mi2 s1 s2 tail
  | _ => false
  end.

Definition xsd_date (s0 : str) : bool :=
  match xsd_year (collapse_ws s0) with
  | Some (y, 45%N :: m1 :: m2 :: 45%N :: d1 :: d2 :: tail) =>
      xsd_month_day y m1 m2 d1 d2 && xsd_tz tail
  | _ => false
  end.

Definition xsd_gYearMonth (s0 : str) : bool :=
  match xsd_year (collapse_ws s0) with
  | Some (y, 45%N :: m1 :: m2 :: tail) => xsd_month_day y m1 m2 48%N 49%N && xsd_tz tail
  | _ => false
  end.

Definition xsd_gYear (s0 : str) : bool :=
  match xsd_year (collapse_ws s0) with
  | Some (y, tail) => xsd_tz tail
  | None => false
  end.

Definition w3cdtf_ok (s : str) : bool :=
  xsd_gYear s || xsd_gYearMonth s || xsd_date s || xsd_dateTime s.

Definition child_ok (c : child) : bool :=
  match c_tag c with
  | TOther _ => false
  | TProp LastPrinted => xsd_dateTime (c_text c)
  | TProp Created | TProp Modified => if c_xsi c then w3cdtf_ok (c_text c) else true
  | TProp _ => true
  end.

Definition count_tag (p : prop) (st : cpstate) : nat := length (filter (has_tag p) st).

Definition valid_cp (st : cpstate) : bool :=
  forallb child_ok st && forallb (fun p => (count_tag p st <=? 1)%nat) all_props.
