(** Write-side theorems for float-valued simple types that have no canonical descriptor:
    proved directly on the Gallina regenerated from simpletypes.py (gen/GenC11.v), for ALL
    python values. *)
From V.lib Require Import Prelude PyFloat PyVal.
From V.model Require Import SimpleTypeLib.
From V.proofs Require Import PyFloat_proofs SimpleTypeLib_proofs.
From V.gen Require Import GenC11.

Lemma py_int_int a b : py_int a = Ok b -> exists z, b = PInt z.
Proof.
  destruct a; simpl; try discriminate.
  - intros [= <-]; eauto.
  - intros [= <-]; eauto.
  - destruct (f_trunc f); simpl; [intros [= <-]; eauto|discriminate].
  - destruct (int_of_str false s); simpl; [intros [= <-]; eauto|discriminate].
Qed.

Lemma py_mod_int z m b : m <> 0%Z -> py_mod (PInt z) (PInt m) = Ok b -> b = PInt (z mod m).
Proof.
  intros Hm. unfold py_mod, arith. simpl. destruct (Z.eqb_spec m 0); [contradiction|].
  intros [= <-]; reflexivity.
Qed.

Lemma py_str_int k s : py_str (PInt k) = Ok (PStr s) -> s = str_of_Z k.
Proof. simpl. intros [= <-]; reflexivity. Qed.

Lemma lex_mod z m : (0 < m)%Z -> lex_ok (LInt 0 (m - 1)) (str_of_Z (z mod m)) = true.
Proof.
  intros Hm. cbn [lex_ok]. rewrite lex_integer_str_of_Z.
  pose proof (Z.mod_pos_bound z m Hm). apply andb_true_iff; split; apply Z.leb_le; lia.
Qed.

(** break [bind e k = Ok x] hypotheses into their stages *)
Ltac binv :=
  repeat match goal with
  | H : bind ?e ?k = Ok _ |- _ =>
      let E := fresh "E" in destruct e eqn:E; cbn [bind] in H; [|discriminate H]
  | H : (if ?b then _ else _) = Ok _ |- _ => destruct b
  | H : Ok _ = Ok _ |- _ => injection H as H; try subst
  end.

Ltac tail_mod :=
  match goal with
  | Hi : py_int _ = Ok ?p, Hm : py_mod ?p (PInt 21600000) = Ok ?q, Hs : py_str ?q = Ok (PStr ?s) |- _ =>
      let z := fresh "z" in
      destruct (py_int_int _ _ Hi) as [z ->];
      apply py_mod_int in Hm; [|discriminate]; subst q;
      apply py_str_int in Hs; subst s; apply (lex_mod z 21600000); reflexivity
  end.

(** ST_PositiveFixedAngle (a:lin/@ang, type ST_PositiveFixedAngle = 0 <= v < 21600000):
    whatever number is accepted, the text written is an integer in 0..21599999 *)
Theorem W_PositiveFixedAngle : forall v s,
  ST_PositiveFixedAngle__to_xml v = Ok (PStr s) -> lex_ok (LInt 0 21599999) s = true.
Proof.
  intros v s H. unfold ST_PositiveFixedAngle__to_xml in H. binv.
  unfold ST_PositiveFixedAngle__convert_to_xml in *. binv; tail_mod.
Qed.

(** ST_Angle (a:xfrm/@rot, type ST_Angle = xsd:int): the text written is an integer in
    0..21599999, in particular an xsd:int *)
Theorem W_Angle : forall v s,
  ST_Angle__to_xml v = Ok (PStr s) -> lex_ok (LInt 0 21599999) s = true.
Proof.
  intros v s H. unfold ST_Angle__to_xml in H. binv.
  unfold ST_Angle__convert_to_xml in *. binv; tail_mod.
Qed.

(** rejections of the angle classes are TypeError / ValueError / (from round or the int->float
    conversion) OverflowError: stated exactly *)
Example PositiveFixedAngle_examples :
  ST_PositiveFixedAngle__to_xml (PFloat (Fin 3166593487906919 (-43))) = Ok (PStr [48%N])   (* 359.99999999 -> 0 *)
  /\ ST_PositiveFixedAngle__to_xml (PInt 90) = Ok (PStr [53; 52; 48; 48; 48; 48; 48]%N)
  /\ ST_PositiveFixedAngle__to_xml (PFloat PInf) = Err ValueErr
  /\ ST_PositiveFixedAngle__to_xml (PStr [49%N]) = Err TypeErr.
Proof. vm_compute. auto. Qed.

(** ------------------------------------------------------------------------------------
    Float-valued percentage classes: what is written is an integer text inside the
    range of the schema type.  The argument: validate_float_in_range compares the value
    EXACTLY with the two bounds; multiplication by the positive constant, round() and
    int() are monotone with respect to exact values (proofs/PyFloat_proofs.v), so the
    result lies between the images of the two bounds, which are computed. *)
Local Open Scope Z_scope.

(** a sharper version of [binv]: contradictory branches are closed, tests on variables
    are split without leaving equations behind *)
Ltac binv2 :=
  repeat match goal with
  | H : Err _ = Ok _ |- _ => discriminate H
  | H : Ok _ = Ok _ |- _ => first [ discriminate H | injection H as H; try subst | clear H ]
  | H : bind ?e ?k = Ok _ |- _ =>
      let E := fresh "E" in destruct e eqn:E; cbn [bind] in H; [|discriminate H]
  | H : (if ?b then _ else _) = Ok _ |- _ =>
      first [ is_var b; destruct b | let B := fresh "B" in destruct b eqn:B ]
  | H : as_bool (Ok (PBool ?b)) = Ok _ |- _ => cbn [as_bool bind py_truth] in H
  end.

(** binv2 plus the  try: x = e  except E: ...  shape (a match on the result of e) *)
Ltac binv3 :=
  repeat match goal with
  | H : Err _ = Ok _ |- _ => discriminate H
  | H : Ok _ = Ok _ |- _ => first [ discriminate H | injection H as H; try subst | clear H ]
  | H : bind ?e ?k = Ok _ |- _ =>
      let E := fresh "E" in destruct e eqn:E; cbn [bind] in H; [|discriminate H]
  | H : (if ?b then _ else _) = Ok _ |- _ =>
      first [ is_var b; destruct b | let B := fresh "B" in destruct b eqn:B ]
  | H : match ?e with Ok _ => _ | Err _ => _ end = Ok _ |- _ =>
      let E := fresh "E" in destruct e eqn:E
  | H : as_bool (Ok (PBool ?b)) = Ok _ |- _ => cbn [as_bool bind py_truth] in H
  end.

(** the exact value python compares: an int is NOT rounded to a float first *)
Definition num_exact (n : num) : pyfloat :=
  match n with NZ z => Fin z 0 | NF f => f end.

Lemma cmp_num_exact n f : cmp_num n (NF f) = f_cmp (num_exact n) f.
Proof. destruct n; reflexivity. Qed.

(** [not (v < lo) and not (v > hi)] means lo <= v <= hi by exact value, or v is a NaN *)
Lemma range_check v n lo hi :
  as_num v = Some n -> f_is_finite lo = true -> f_is_finite hi = true ->
  py_lt v (PFloat lo) = Ok false -> py_gt v (PFloat hi) = Ok false ->
  num_exact n = NaN \/ (f_leb lo (num_exact n) = true /\ f_leb (num_exact n) hi = true).
Proof.
  intros Hn Flo Fhi. unfold py_lt, py_gt, py_order. rewrite Hn. cbn [as_num].
  rewrite !cmp_num_exact. unfold f_leb at 1. rewrite (f_cmp_opp (num_exact n) lo).
  unfold f_leb.
  destruct (num_exact n) as [m e| | |]; [| | |left; reflexivity];
    destruct lo as [lm le| | |]; try discriminate Flo;
    destruct hi as [hm he| | |]; try discriminate Fhi.
  - rewrite !f_cmp_fin.
    match goal with |- context [?a ?= ?b] => destruct (a ?= b) end;
      intros H1; try discriminate H1;
    match goal with |- context [?a ?= ?b] => destruct (a ?= b) end;
      intros H2; try discriminate H2; right; split; reflexivity.
  - intros _ H2. discriminate H2.
  - intros H1. discriminate H1.
Qed.

(** multiplication of a python number by a float constant *)
Lemma py_mul_float v n c t :
  as_num v = Some n -> py_mul v (PFloat c) = Ok t ->
  exists fx, num_float n = Ok fx /\ t = PFloat (f_mul fx c).
Proof.
  intros Hn. unfold py_mul, arith. rewrite Hn. cbn [as_num].
  destruct n as [z|f]; cbn [num_float].
  - destruct (f_of_Z z) as [fx|]; cbn [bind]; [|discriminate]. intros [= <-]. eauto.
  - cbn [bind]. intros [= <-]. eauto.
Qed.

(** the float that enters the multiplication is still between the bounds when these
    are representable (for an int: float(int) is monotone and fixes the bounds) *)
Lemma num_float_bounds n fx lom loe him hie :
  round_dy lom loe = Fin lom loe -> round_dy him hie = Fin him hie ->
  num_float n = Ok fx ->
  f_leb (Fin lom loe) (num_exact n) = true -> f_leb (num_exact n) (Fin him hie) = true ->
  f_leb (Fin lom loe) fx = true /\ f_leb fx (Fin him hie) = true /\ f_is_finite fx = true.
Proof.
  intros Rl Rh Hf Hl Hh.
  assert (G : f_leb (Fin lom loe) fx = true /\ f_leb fx (Fin him hie) = true).
  { destruct n as [z|f]; cbn [num_float num_exact] in *.
    - rewrite (f_of_Z_round _ _ Hf). split.
      + now apply round_dy_mono_lower.
      + now apply round_dy_mono_upper.
    - injection Hf as <-. auto. }
  destruct G as [G1 G2]. repeat split; try assumption.
  destruct fx; try reflexivity; try discriminate G1; discriminate G2.
Qed.

(** value after scaling: NaN, or between the scaled bounds *)
Lemma scaled_bounds v n lom loe him hie mc ec t :
  as_num v = Some n ->
  round_dy lom loe = Fin lom loe -> round_dy him hie = Fin him hie -> 0 < mc ->
  py_lt v (PFloat (Fin lom loe)) = Ok false -> py_gt v (PFloat (Fin him hie)) = Ok false ->
  py_mul v (PFloat (Fin mc ec)) = Ok t ->
  exists y, t = PFloat y /\
    (y = NaN \/ (f_leb (f_mul (Fin lom loe) (Fin mc ec)) y = true
                 /\ f_leb y (f_mul (Fin him hie) (Fin mc ec)) = true)).
Proof.
  intros Hn Rl Rh Hc Hlt Hgt Hm.
  destruct (py_mul_float v n _ t Hn Hm) as (fx & Hf & ->). eexists; split; [reflexivity|].
  destruct (range_check v n (Fin lom loe) (Fin him hie) Hn eq_refl eq_refl Hlt Hgt) as [HN|[Hl Hh]].
  - left. destruct n as [z|f]; cbn [num_exact num_float] in *; [discriminate HN|].
    subst f. injection Hf as <-. reflexivity.
  - right. destruct (num_float_bounds n fx _ _ _ _ Rl Rh Hf Hl Hh) as (G1 & G2 & G3).
    split; apply f_mul_mono_l; auto.
Qed.

Lemma lex_int_between A B r :
  A <= r <= B -> lex_ok (LInt A B) (str_of_Z r) = true.
Proof.
  intros H. cbn [lex_ok]. rewrite lex_integer_str_of_Z.
  apply andb_true_iff; split; apply Z.leb_le; lia.
Qed.

(** str(int(round(v * c))) *)
Lemma W_round_scaled v n lom loe him hie mc ec A B t t1 t2 s :
  as_num v = Some n ->
  round_dy lom loe = Fin lom loe -> round_dy him hie = Fin him hie -> 0 < mc ->
  f_round (f_mul (Fin lom loe) (Fin mc ec)) = Ok A ->
  f_round (f_mul (Fin him hie) (Fin mc ec)) = Ok B ->
  py_lt v (PFloat (Fin lom loe)) = Ok false -> py_gt v (PFloat (Fin him hie)) = Ok false ->
  py_mul v (PFloat (Fin mc ec)) = Ok t -> py_round t = Ok t1 -> py_int t1 = Ok t2 ->
  py_str t2 = Ok (PStr s) ->
  lex_ok (LInt A B) s = true.
Proof.
  intros Hn Rl Rh Hc HA HB Hlt Hgt Hm Hr Hi Hs.
  destruct (scaled_bounds v n _ _ _ _ _ _ t Hn Rl Rh Hc Hlt Hgt Hm) as (y & -> & Hy).
  cbn [py_round] in Hr. destruct (f_round y) as [r|] eqn:Er; cbn [bind] in Hr; [|discriminate].
  injection Hr as <-. cbn [py_int] in Hi. injection Hi as <-.
  apply py_str_int in Hs. subst s.
  destruct Hy as [->|[Hl Hh]]; [discriminate Er|].
  apply lex_int_between. split.
  - eapply f_round_mono_leb; eassumption.
  - eapply f_round_mono_leb; eassumption.
Qed.

(** str(int(v * c)) : int() truncates toward zero *)
Lemma W_trunc_scaled v n lom loe him hie mc ec A B t t2 s :
  as_num v = Some n ->
  round_dy lom loe = Fin lom loe -> round_dy him hie = Fin him hie -> 0 < mc ->
  f_trunc (f_mul (Fin lom loe) (Fin mc ec)) = Ok A ->
  f_trunc (f_mul (Fin him hie) (Fin mc ec)) = Ok B ->
  py_lt v (PFloat (Fin lom loe)) = Ok false -> py_gt v (PFloat (Fin him hie)) = Ok false ->
  py_mul v (PFloat (Fin mc ec)) = Ok t -> py_int t = Ok t2 ->
  py_str t2 = Ok (PStr s) ->
  lex_ok (LInt A B) s = true.
Proof.
  intros Hn Rl Rh Hc HA HB Hlt Hgt Hm Hi Hs.
  destruct (scaled_bounds v n _ _ _ _ _ _ t Hn Rl Rh Hc Hlt Hgt Hm) as (y & -> & Hy).
  cbn [py_int] in Hi. destruct (f_trunc y) as [r|] eqn:Er; cbn [bind] in Hi; [|discriminate].
  injection Hi as <-. apply py_str_int in Hs. subst s.
  destruct Hy as [->|[Hl Hh]]; [discriminate Er|].
  apply lex_int_between. split.
  - eapply f_trunc_mono_leb; eassumption.
  - eapply f_trunc_mono_leb; eassumption.
Qed.

(** isinstance(value, (int, float)) leaves int, bool and float *)
Ltac num_cases v B :=
  destruct v; try discriminate B.

(** the other spelling of the range test:  not lo <= v <= hi  instead of  v < lo or v > hi.
    lo <= v true means v is not below lo (and not a NaN); v <= hi true means v is not above hi *)
Lemma py_le_lo_lt v lo : py_le (PFloat lo) v = Ok true -> py_lt v (PFloat lo) = Ok false.
Proof.
  unfold py_le, py_lt, py_order. cbn [as_num]. destruct (as_num v) as [n|] eqn:Hn.
  - destruct n as [z|f]; cbn [cmp_num].
    + rewrite (f_cmp_opp lo (Fin z 0)). destruct (f_cmp lo (Fin z 0)) as [[| |]|]; cbn [CompOpp]; intros H; try discriminate H; reflexivity.
    + rewrite (f_cmp_opp lo f). destruct (f_cmp lo f) as [[| |]|]; cbn [CompOpp]; intros H; try discriminate H; reflexivity.
  - destruct v; discriminate.
Qed.
Lemma py_le_hi_gt v hi : py_le v (PFloat hi) = Ok true -> py_gt v (PFloat hi) = Ok false.
Proof.
  unfold py_le, py_gt, py_order. destruct (as_num v) as [n|] eqn:Hn; cbn [as_num].
  - destruct (cmp_num n (NF hi)) as [[| |]|]; intros H; try discriminate H; reflexivity.
  - destruct v; discriminate.
Qed.

(** hypotheses left by binv2 are brought to the shape the range lemmas expect, whichever way the
    source spells the test *)
Ltac norm_range :=
  repeat match goal with
  | B : negb ?a = false |- _ => is_var a; destruct a; [clear B|discriminate B]
  | B : negb ?a = true |- _ => is_var a; destruct a; [discriminate B|clear B]
  | H : py_le (PFloat (Fin ?m ?e)) ?v = Ok true |- _ => apply py_le_lo_lt in H
  | H : py_le ?v (PFloat (Fin ?m ?e)) = Ok true |- _ => apply py_le_hi_gt in H
  end.

(** closes a closed numeric side condition by computation; refuses a goal that still has holes or variables
    left by a failed eassumption (vm_compute on such a goal can run away) *)
Ltac closed_compute :=
  match goal with |- ?g => tryif has_evar g then fail "side condition not determined" else (vm_compute; reflexivity) end.

(** cases of v that are not numbers die on some hypothesis that computes to an error *)
Ltac kill_absurd :=
  solve [ match goal with E : _ = _ |- _ =>
            cbn [py_isinstance existsb isinstance1 orb negb andb py_lt py_gt py_le py_ge py_order as_num py_mul arith py_float] in E;
            match type of E with
            | Err _ = Ok _ => discriminate E
            | true = false => discriminate E
            | false = true => discriminate E
            end end ].
Ltac num_split v := destruct v; try kill_absurd.

(** ST_Percentage: validate_float_in_range(value, -21474.83648, 21474.83647) and
    str(int(round(value * 100000.0))): an xsd:int *)
Theorem W_Percentage : forall v s,
  ST_Percentage__to_xml v = Ok (PStr s) -> lex_ok (LInt (-2147483648) 2147483647) s = true.
Proof.
  intros v s. unfold_gen. intros H. binv3;
  num_split v; norm_range;
    (eapply W_round_scaled; try eassumption; [reflexivity|..]; closed_compute).
Qed.

(** ST_PositiveFixedPercentage: range 0.0 .. 1.0, written 0 .. 100000 *)
Theorem W_PositiveFixedPercentage : forall v s,
  ST_PositiveFixedPercentage__to_xml v = Ok (PStr s) -> lex_ok (LInt 0 100000) s = true.
Proof.
  intros v s. unfold_gen. intros H. binv3;
  num_split v; norm_range;
    (eapply W_round_scaled; try eassumption; [reflexivity|..]; closed_compute).
Qed.

(** ST_TextSpacingPercentOrPercentString: range 0.0 .. 132.0, written 0 .. 13200000 *)
Theorem W_TextSpacingPercent : forall v s,
  ST_TextSpacingPercentOrPercentString__to_xml v = Ok (PStr s) ->
  lex_ok (LInt 0 13200000) s = true.
Proof.
  intros v s. unfold_gen. intros H. binv3;
  num_split v; norm_range;
    (eapply W_round_scaled; try eassumption; [reflexivity|..]; closed_compute).
Qed.

(** ST_TextFontScalePercentOrPercentString: a finite number with 1.0 <= value <= 100.0,
    str(int(value * 1000.0)) with int() truncating: written 1000 .. 100000 *)
Theorem W_TextFontScalePercent : forall v s,
  ST_TextFontScalePercentOrPercentString__to_xml v = Ok (PStr s) ->
  lex_ok (LInt 1000 100000) s = true.
Proof.
  intros v s. unfold_gen. intros H. binv3;
  num_split v; norm_range;
    (eapply W_trunc_scaled; try eassumption; [reflexivity|..]; closed_compute).
Qed.

(** non-vacuity, the end points, and the NaN / bool / int cases *)
Example Percentage_examples :
  ST_Percentage__to_xml (PFloat (Fin 5902958100838277 (-38)))           (* 21474.83647 *)
    = Ok (PStr [50; 49; 52; 55; 52; 56; 51; 54; 52; 55]%N)              (* 2147483647 *)
  /\ ST_Percentage__to_xml (PFloat (Fin (-5902958103587057) (-38)))     (* -21474.83648 *)
    = Ok (PStr [45; 50; 49; 52; 55; 52; 56; 51; 54; 52; 56]%N)          (* -2147483648 *)
  /\ ST_Percentage__to_xml (PFloat NaN) = Err ValueErr                  (* round(nan) *)
  /\ ST_Percentage__to_xml (PBool true) = Ok (PStr [49; 48; 48; 48; 48; 48]%N)
  /\ ST_Percentage__to_xml (PInt 21475) = Err ValueErr
  /\ ST_Percentage__to_xml (PStr [49%N]) = Err TypeErr.
Proof. vm_compute. repeat split. Qed.

Example PositiveFixedPercentage_examples :
  ST_PositiveFixedPercentage__to_xml (PFloat (Fin 1 (-1))) = Ok (PStr [53; 48; 48; 48; 48]%N)
  /\ ST_PositiveFixedPercentage__to_xml (PInt 1) = Ok (PStr [49; 48; 48; 48; 48; 48]%N)
  /\ ST_PositiveFixedPercentage__to_xml (PFloat (Fin 4503599627370497 (-52))) = Err ValueErr
  /\ ST_PositiveFixedPercentage__to_xml (PFloat NaN) = Err ValueErr.
Proof. vm_compute. repeat split. Qed.

Example TextSpacingPercent_examples :
  ST_TextSpacingPercentOrPercentString__to_xml (PInt 132)
    = Ok (PStr [49; 51; 50; 48; 48; 48; 48; 48]%N)
  /\ ST_TextSpacingPercentOrPercentString__to_xml (PFloat (Fin 3 (-1)))
    = Ok (PStr [49; 53; 48; 48; 48; 48]%N)
  /\ ST_TextSpacingPercentOrPercentString__to_xml (PInt 133) = Err ValueErr.
Proof. vm_compute. repeat split. Qed.

Example TextFontScalePercent_examples :
  ST_TextFontScalePercentOrPercentString__to_xml (PFloat (Fin 100 0))
    = Ok (PStr [49; 48; 48; 48; 48; 48]%N)
  /\ ST_TextFontScalePercentOrPercentString__to_xml (PInt 1) = Ok (PStr [49; 48; 48; 48]%N)
  /\ ST_TextFontScalePercentOrPercentString__to_xml (PFloat (Fin 62499 (-4)))   (* 3906.19 > 100 *)
    = Err ValueErr
  /\ ST_TextFontScalePercentOrPercentString__to_xml (PFloat (Fin 199 (-1)))     (* 99.5 *)
    = Ok (PStr [57; 57; 53; 48; 48]%N)
  /\ ST_TextFontScalePercentOrPercentString__to_xml (PFloat NaN) = Err ValueErr.
Proof. vm_compute. repeat split. Qed.

Print Assumptions W_Percentage.
Print Assumptions W_PositiveFixedPercentage.
Print Assumptions W_TextSpacingPercent.
Print Assumptions W_TextFontScalePercent.
