(** Runner entry point for the C19 correspondence: [run_c19 args] where the first
    argument is the operation name. *)
From V.lib Require Import Prelude Wire.
From V.model Require Import PackUri.

Definition op_acc : str := [97; 99; 99]%N.       (* acc *)
Definition op_rt  : str := [114; 116]%N.         (* rt *)
Definition op_frr : str := [102; 114; 114]%N.    (* frr *)
Definition op_new : str := [110; 101; 119]%N.    (* new *)
Definition op_rel : str := [114; 101; 108]%N.    (* rel *)

Definition run_c19 (args : list str) : str :=
  match args with
  | [op; p] =>
      if str_eqb op op_acc then
        fields [show_str (baseURI p); show_str (filename p); show_str (ext p);
                show_opt show_N (idx p); show_str (membername p);
                show_res show_str (rels_uri p)]
      else if str_eqb op op_new then show_res show_str (packuri_new p)
      else w_badcase
  | [op; a; b] =>
      if str_eqb op op_rt then
        (* a = part name P, b = part name Q *)
        let base := baseURI a in
        let r := relative_ref b base in
        fields [show_res show_str r;
                show_res show_str (bind r (fun ref => from_rel_ref base ref))]
      else if str_eqb op op_frr then show_res show_str (from_rel_ref a b)
      else if str_eqb op op_rel then show_res show_str (relative_ref a b)
      else w_badcase
  | _ => w_badcase
  end.
