(** Instance obligations of C05 over the sink list regenerated from /repo (gen/GenC05.v). *)
From V.lib Require Import Prelude.
From V.model Require Import Escape.
From V.proofs Require Import Escape_proofs.
From V.gen Require Import GenC05.

Lemma no_unmodelled : n_unmodelled = 0%nat.
Proof. vm_compute. reflexivity. Qed.

Definition sink_passes (k : sink) : bool := memN (sk_id k) known_failing || sink_good k.

Lemma all_sinks_pass : forallb sink_passes sinks = true.
Proof. vm_compute. reflexivity. Qed.

Lemma all_sinks_safe : forall k, In k sinks -> memN (sk_id k) known_failing = false ->
  forall s, xml_str s = true -> (sk_esc k = NotText -> plain s = true /\ no_ws_ctl s = true) ->
  lex_slot (sk_ctx k) (apply_esc (sk_esc k) s) = Got s.
Proof.
  intros k Hin Hk s Hx Hp. pose proof (proj1 (forallb_forall _ _) all_sinks_pass k Hin) as H.
  unfold sink_passes in H. rewrite Hk in H. simpl in H. apply sink_ok_sound; auto.
Qed.

(** recorded findings are real: every known-failing sink is rejected by the table and its
    witness string does break the slot *)
Definition known_real (k : sink) : bool :=
  negb (memN (sk_id k) known_failing) || (negb (sink_good k) && sink_breaks k).

Lemma all_known_real : forallb known_real sinks = true.
Proof. vm_compute. reflexivity. Qed.

Lemma known_failing_refuted : forall k, In k sinks -> memN (sk_id k) known_failing = true ->
  xml_str (sink_witness k) = true /\
  lex_slot (sk_ctx k) (apply_esc (sk_esc k) (sink_witness k)) <> Got (sink_witness k).
Proof.
  intros k Hin Hk. pose proof (proj1 (forallb_forall _ _) all_known_real k Hin) as H.
  unfold known_real in H. rewrite Hk in H. simpl in H. apply andb_true_iff in H as [Hg Hb].
  apply negb_true_iff in Hg. unfold sink_good in Hg.
  exact (sink_ok_complete _ _ Hg).
Qed.

(** ids are the positions in the list (so that the meta file and the list agree) *)
Fixpoint ids_from (n : N) (l : list sink) : bool :=
  match l with [] => true | k :: r => N.eqb (sk_id k) n && ids_from (N.succ n) r end.
Lemma ids_sequential : ids_from 0%N sinks = true.
Proof. vm_compute. reflexivity. Qed.

(** every sink that receives caller text is in the list, and known findings are among them *)
Lemma known_are_caller_text : forallb (fun i => memN i caller_text_sinks) known_failing = true.
Proof. vm_compute. reflexivity. Qed.
