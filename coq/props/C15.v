(** C15 -- images are stored once, byte-exact, with the type and size of the actual image.

    Theorems over model/Image.v.  [H] is the digest function (SHA-1 is not modelled;
    where a statement needs H to separate blobs it says so), [fl] the rounding of one
    binary64 operation.  A history is any list of operations: new slide, other
    relationships on a slide, image addition on a slide as picture / placeholder picture /
    poster frame or icon, REMOVAL of a slide (its p:sldId and the presentation relationship)
    or of one relationship of a slide (after the last element using it went), and
    save-and-reopen; run from any state satisfying the invariant; there is no bound on its
    length or on the number of images or slides.  The state holds every part OBJECT, also
    the ones no relationship leads to any more; the store is what walking the
    relationships reaches ([store]: Package.iter_parts, [index]: what _find_by_sha1
    iterates), computed from the relationships at every look-up. *)
From Coq Require Import QArith Qabs Qround.
From V.lib Require Import Prelude.
From V.model Require Import PackUri Image.
From V.proofs Require Import Image_proofs.
From V.gen Require Import GenC15.
Local Open Scope Z_scope.

(* ------------------------------------------------------------------ the invariant *)

(** object identities are unique and below the counter; among the parts the package
    REACHES names are unique; among the image parts the look-up iterates digests are
    unique; the class of every part is the one the part factory selects for its content
    type; every image relationship of a slide leads to an existing object (true of any
    package just loaded, and of the empty store) *)
Theorem C15_invariant_meaning : forall H st,
  Inv H st <->
  NoDup (map p_id (st_heap st)) /\
  Forall (fun p => (p_id p < st_next st)%N) (st_heap st) /\
  NoDup (map p_name (store st)) /\
  NoDup (map (digest H) (index st)) /\
  Forall (fun p => p_cls p = ct_is_imagepart (p_ct p)) (st_heap st) /\
  (forall i, In i (targets (st_slides st)) -> In i (map p_id (st_heap st))).
Proof. exact inv_meaning. Qed.
Print Assumptions C15_invariant_meaning.

(** kept by every history of additions, removals and re-openings: at every point no two
    reachable parts share a name and no two indexed parts share a digest *)
Theorem C15_invariant_kept : forall H fl ops st, Inv H st -> Inv H (final H fl st ops).
Proof. exact (fun H fl ops st => run_inv H fl ops st). Qed.
Print Assumptions C15_invariant_kept.

(* ------------------------------------------------------------------ the look-up *)

(** _find_by_sha1 answers with a part the relationships lead to (one the walk iterates,
    hence one the package reaches and saves) holding that digest, or with none when no
    such part holds it; an object nothing leads to is never the answer *)
Theorem C15_lookup_reachable : forall H st d,
  match find_by_digest H d st with
  | Some p => In p (index st) /\ In p (store st) /\ digest H p = d
  | None => forall p, In p (index st) -> digest H p <> d
  end.
Proof. exact lookup_reachable. Qed.
Print Assumptions C15_lookup_reachable.

(** an object nothing leads to stays out for the rest of any history: the package never
    reaches it again, so it is not looked up, not related to and not saved *)
Theorem C15_orphan_stays : forall H fl st ops p,
  Inv H st -> In p (st_heap st) -> reachable (st_slides st) p = false ->
  forall q, In q (st_heap (final H fl st ops)) -> p_id q = p_id p ->
            reachable (st_slides (final H fl st ops)) q = false.
Proof. exact orphan_stays. Qed.
Print Assumptions C15_orphan_stays.

(** a removal takes away relationships and nothing else: no object is altered, and what
    the package reaches / the look-up iterates can only shrink *)
Theorem C15_removal : forall H fl st o st' r,
  Inv H st -> step H fl st o = (st', r) -> removal o = true ->
  st_heap st' = st_heap st /\
  (forall q, In q (store st') -> In q (store st)) /\
  (forall q, In q (index st') -> In q (index st)).
Proof. exact removal_effect. Qed.
Print Assumptions C15_removal.

(* ------------------------------------------------------------------ stored once *)

(** If operation number i of a history added image im and was answered with the part
    object pid under (name, ext, content type), and at the end of the history -- whatever
    else happened before or after, on whatever slides, including removals and re-opening
    -- some image relationship of a slide still leads to that object, then the package
    reaches a part of that identity, name, extension and content type whose digest is that
    of im; it is the only indexed part with that digest and the only reachable part of
    that name.  (Applied to a prefix of the history this speaks about every moment.) *)
Theorem C15_once : forall H fl st ops i im pid name e ct,
  Inv H st -> stored_at H fl st ops i im pid name e ct -> still_related H fl st ops pid ->
  let fin := final H fl st ops in
  exists p, In p (index fin) /\ In p (store fin) /\
            p_id p = pid /\ p_name p = name /\ p_ct p = ct /\ ext (p_name p) = e /\
            digest H p = H (i_blob im) /\
            (forall q, In q (index fin) -> digest H q = H (i_blob im) -> q = p) /\
            (forall q, In q (store fin) -> p_name q = name -> q = p).
Proof. exact once. Qed.
Print Assumptions C15_once.

(** whether or not anything still leads to it, the object is never altered and its
    identity is never given to another object *)
Theorem C15_immutable : forall H fl st ops i im pid name e ct,
  Inv H st -> stored_at H fl st ops i im pid name e ct ->
  forall q, In q (st_heap (final H fl st ops)) -> p_id q = pid ->
    p_name q = name /\ p_ct q = ct /\ ext (p_name q) = e /\ p_cls q = true /\ digest H q = H (i_blob im).
Proof. exact immutable. Qed.
Print Assumptions C15_immutable.

(** the single-step form: right after an addition the look-up finds that object, and
    adding bytes with the same digest again changes nothing and returns the same object *)
Theorem C15_once_step : forall H fl st s im u st1 pid name rid e ct a b,
  Inv H st -> step H fl st (OImage s im u) = (st1, Ok (OutImg pid name rid e ct a b)) ->
  exists p, p_id p = pid /\ find_by_digest H (H (i_blob im)) st1 = Some p /\
    forall im', H (i_blob im') = H (i_blob im) -> get_or_add H st1 im' = Ok (st_heap st1, p).
Proof. exact once_step. Qed.
Print Assumptions C15_once_step.

Theorem C15_same_part : forall H fl st ops i j im im' pid pid' name e ct name' e' ct',
  Inv H st ->
  stored_at H fl st ops i im pid name e ct -> stored_at H fl st ops j im' pid' name' e' ct' ->
  still_related H fl st ops pid -> still_related H fl st ops pid' ->
  H (i_blob im) = H (i_blob im') -> pid = pid' /\ name = name' /\ e = e' /\ ct = ct'.
Proof. exact same_part. Qed.
Print Assumptions C15_same_part.

(** different bytes are in different objects under different names (among the parts
    something still leads to), provided the digest separates them *)
Theorem C15_distinct : forall H fl st ops i j im im' pid pid' name e ct name' e' ct',
  Inv H st ->
  stored_at H fl st ops i im pid name e ct -> stored_at H fl st ops j im' pid' name' e' ct' ->
  still_related H fl st ops pid -> still_related H fl st ops pid' ->
  i_blob im <> i_blob im' -> (H (i_blob im) = H (i_blob im') -> i_blob im = i_blob im') ->
  pid <> pid' /\ name <> name'.
Proof. exact (fun H fl st ops i j im im' pid pid' name e ct name' e' ct' I S1 S2 L1 L2 Hb Hsep =>
               distinct H fl st ops i j im im' pid pid' name e ct name' e' ct' I S1 S2 L1 L2 (fun E => Hb (Hsep E))). Qed.
Print Assumptions C15_distinct.

(** the stored bytes are the bytes given (H separating them from any other blob) *)
Theorem C15_bytes : forall H fl st ops i im pid name e ct,
  Inv H st -> stored_at H fl st ops i im pid name e ct -> still_related H fl st ops pid ->
  (forall b, H b = H (i_blob im) -> b = i_blob im) ->
  exists p, In p (store (final H fl st ops)) /\ p_id p = pid /\ p_name p = name /\ p_blob p = i_blob im.
Proof. exact bytes. Qed.
Print Assumptions C15_bytes.

(** a newly created part holds exactly the bytes given, under a name no REACHABLE part has
    -- the first free number among the reachable parts, so the name of a part nothing
    leads to any more is free again --, with the extension and content type the tables give
    for the Pillow format *)
Theorem C15_new_part : forall H st im hp' p,
  get_or_add H st im = Ok (hp', p) -> find_by_digest H (H (i_blob im)) st = None ->
  p_blob p = i_blob im /\ ~ In (p_name p) (map p_name (store st)) /\
  exists e, image_ext (i_blob im) (i_meta im) = Ok e /\ ext (p_name p) = e /\
            p_name p = image_partname (next_image_idx (map p_name (store st))) e /\
            assoc e image_content_types = Some (p_ct p).
Proof. exact new_part_type. Qed.
Print Assumptions C15_new_part.

(** a history without removals loses nothing the package reached *)
Theorem C15_preserved : forall H fl st ops q,
  Inv H st -> forallb (fun o => negb (removal o)) ops = true ->
  In q (store st) -> In q (store (final H fl st ops)).
Proof. exact preserved. Qed.
Print Assumptions C15_preserved.

(** the relationship a picture uses targets the object that holds its image, and that
    object is among the parts the look-up iterates *)
Theorem C15_rel_targets_part : forall H fl st s im u st' pid name rid e ct a b,
  Inv H st -> step H fl st (OImage s im u) = (st', Ok (OutImg pid name rid e ct a b)) ->
  (exists rs', nth_error (st_slides st') s = Some rs' /\ In (rid, Some pid) rs') /\
  exists p, In p (index st') /\ p_id p = pid /\ p_name p = name.
Proof. exact rel_targets_part. Qed.
Print Assumptions C15_rel_targets_part.

(* ------------------------------------------------------------------ save and re-open *)

(** save writes the parts the package reaches and load returns their names, content types
    and bytes unchanged (C01), choosing each part's class from its content type: the objects
    nothing leads to are gone, what the package reaches and what the look-up iterates are
    the same, so the digest index rebuilt after re-opening answers every query as before *)
Theorem C15_reopen : forall H fl st, Inv H st ->
  let st' := fst (step H fl st OReload) in
  st_heap st' = store st /\ st_slides st' = st_slides st /\
  store st' = store st /\ index st' = index st /\
  forall d, find_by_digest H d st' = find_by_digest H d st.
Proof. exact reopen. Qed.
Print Assumptions C15_reopen.

Theorem C15_reopen_new_part : forall st im p, new_image_part st im = Ok p -> reload_part p = p.
Proof. exact reopen_new. Qed.
Print Assumptions C15_reopen_new_part.

(* ------------------------------------------------------------------ tables (instance, regenerated each run) *)

Theorem C15_no_unmodelled : n_unmodelled = 0%nat.
Proof. exact (eq_refl 0%nat). Qed.
Print Assumptions C15_no_unmodelled.

(** every extension Image.ext can return -- a value of the Pillow-format map, or the
    extension of a header rule (emf) -- has an entry in image_content_types; that
    (extension, content type) pair is a row of default_content_types and the only row for
    that extension; the content type is mapped to ImagePart *)
Theorem C15_tables : forall e,
  (exists fmt, assoc fmt gen_ext_map = Some e) \/ In e (map snd gen_ext_special) ->
  exists ct, assoc e gen_image_content_types = Some ct /\
             In (e, ct) gen_default_content_types /\
             (forall ct', In (e, ct') gen_default_content_types -> ct' = ct) /\
             In ct gen_imagepart_cts.
Proof. exact (tables_sound_gen gen_ext_map gen_ext_special gen_image_content_types gen_default_content_types
                gen_imagepart_cts (eq_refl true)). Qed.
Print Assumptions C15_tables.

(** the tables and rules the model computes with are the regenerated ones *)
Theorem C15_tables_match :
  (forall k, assoc k gen_ext_map = assoc k ext_map) /\
  (forall k, assoc k gen_image_content_types = assoc k image_content_types) /\
  (forall ct, mem_str ct gen_imagepart_cts = ct_is_imagepart ct).
Proof. exact (tables_match_sound gen_ext_map gen_image_content_types gen_imagepart_cts (eq_refl true)). Qed.
Print Assumptions C15_tables_match.

Theorem C15_rules_match : gen_ext_special = ext_special /\ gen_dpi_drop = dpi_drop_rules.
Proof. exact (conj (eq_refl ext_special) (eq_refl dpi_drop_rules)). Qed.
Print Assumptions C15_rules_match.

(** the header rule: a blob Pillow calls WMF that carries ' EMF' at offset 40 is an
    enhanced metafile and gets the extension emf; without those bytes it stays wmf *)
Theorem C15_emf_by_header : forall b w h d x,
  image_ext b (Meta (Some [87; 77; 70]%N) w h d x) =
  Ok (if str_eqb (slice b 40 4) [32; 69; 77; 70]%N then [101; 109; 102]%N else [119; 109; 102]%N).
Proof. exact emf_by_header. Qed.
Print Assumptions C15_emf_by_header.

(* ------------------------------------------------------------------ dpi *)

(** whatever Pillow reports, a normalised dpi lies in 1..2048; the only input that is not
    normalised is an infinite value, which raises OverflowError *)
Theorem C15_dpi : forall d,
  (forall n, int_dpi d = Ok n -> 1 <= n <= 2048) /\
  (d <> DInf -> exists n, int_dpi d = Ok n) /\
  (d = DInf -> int_dpi d = Err OverflowErr).
Proof. exact (fun d => conj (int_dpi_range d) (conj (int_dpi_total d) (fun E => f_equal int_dpi E))). Qed.
Print Assumptions C15_dpi.

(** a finite value that rounds (half to even) into 1..2048 is kept, within one half;
    one that rounds outside becomes 72 *)
Theorem C15_dpi_value : forall q,
  (1 <= rhe q <= 2048 -> int_dpi (DQ q) = Ok (rhe q) /\ (Qabs (inject_Z (rhe q) - q) <= 1 # 2)%Q) /\
  (rhe q < 1 \/ 2048 < rhe q -> int_dpi (DQ q) = Ok 72).
Proof. exact (fun q => conj (int_dpi_value q) (int_dpi_default q)). Qed.
Print Assumptions C15_dpi_value.

(* ------------------------------------------------------------------ native size *)

(** the native size is the pixel size at the normalised dpi, rounded down to whole EMU;
    the dpi entry is the one Pillow reports except for a TIFF without XResolution *)
Theorem C15_native : forall f w h d x, 0 <= w -> 0 <= h ->
  forall cx cy, native_size (Meta f w h d x) = Ok (cx, cy) ->
  exists hd vd, normalize_pil_dpi (eff_dpi f d x) = Ok (hd, vd) /\ 1 <= hd <= 2048 /\ 1 <= vd <= 2048 /\
    cx * hd <= 914400 * w < (cx + 1) * hd /\ cy * vd <= 914400 * h < (cy + 1) * vd.
Proof. exact native_size_spec. Qed.
Print Assumptions C15_native.

Theorem C15_native_default : forall f w h x,
  native_size (Meta f w h PNoTuple x) = Ok (12700 * w, 12700 * h).
Proof. exact native_size_default. Qed.
Print Assumptions C15_native_default.

(** a TIFF for which Pillow read no XResolution tag is sized at 72 dpi whatever
    placeholder dpi Pillow reports; in every other case the reported entry is used *)
Theorem C15_native_tiff_without_resolution : forall w h d,
  native_size (Meta (Some [84; 73; 70; 70]%N) w h d false) = Ok (12700 * w, 12700 * h).
Proof. exact native_size_tiff_nores. Qed.
Print Assumptions C15_native_tiff_without_resolution.

Theorem C15_dpi_entry_kept : forall f d x,
  x = true \/ fmt_is f [84; 73; 70; 70]%N = false -> eff_dpi f d x = d.
Proof. exact eff_dpi_kept. Qed.
Print Assumptions C15_dpi_entry_kept.

(** the implementation evaluates 914400 * px / dpi in binary64 and truncates; that is the
    integer the model computes exactly (fl64 as in C15_fl64_premises) *)
Theorem C15_native_float : forall px dpi,
  0 <= px -> 914400 * px < 1099511627776 -> 1 <= dpi <= 2048 ->
  Qfloor (fl64 (inject_Z (914400 * px) / inject_Z dpi)) = native_dim px dpi.
Proof. exact native_float_exact. Qed.
Print Assumptions C15_native_float.

(* ------------------------------------------------------------------ scale *)

Theorem C15_scale_none : forall fl icx icy cx cy, truthy cx = false -> truthy cy = false ->
  scale fl icx icy cx cy = Ok (icx, icy).
Proof. exact scale_falsy. Qed.
Print Assumptions C15_scale_none.

Theorem C15_scale_both : forall fl icx icy x y, x <> 0 -> y <> 0 ->
  scale fl icx icy (Some x) (Some y) = Ok (x, y).
Proof. exact scale_both. Qed.
Print Assumptions C15_scale_both.

(** the falsy edge: a zero width or height is treated exactly as an absent one *)
Theorem C15_scale_zero_is_none : forall fl icx icy o,
  scale fl icx icy (Some 0) o = scale fl icx icy None o /\
  scale fl icx icy o (Some 0) = scale fl icx icy o None.
Proof. exact scale_zero_is_none. Qed.
Print Assumptions C15_scale_zero_is_none.

(** one dimension given: the other preserves the aspect ratio within rounding, for any
    rounding operator with relative error at most 2^-53 that is exact on integers up to
    2^53 (the premises on fl are part of the statement) *)
Theorem C15_scale : forall fl : Q -> Q,
  (forall p q, (p == q)%Q -> (fl p == fl q)%Q) ->
  (forall q, (Qabs (fl q - q) <= Qabs q * eps53)%Q) ->
  (forall z, small z -> (fl (inject_Z z) == inject_Z z)%Q) ->
  forall icx icy, small icx -> small icy ->
  (forall x cy, x <> 0 -> truthy cy = false -> icx <> 0 -> small x ->
     exists y, scale fl icx icy (Some x) cy = Ok (x, y) /\
       (Qabs (inject_Z y * inject_Z icx - inject_Z x * inject_Z icy)
        <= Qabs (inject_Z icx) * (1 # 2) + Qabs (inject_Z x * inject_Z icy) * (3 * eps53))%Q) /\
  (forall y cx, y <> 0 -> truthy cx = false -> icy <> 0 -> small y ->
     exists x, scale fl icx icy cx (Some y) = Ok (x, y) /\
       (Qabs (inject_Z x * inject_Z icy - inject_Z y * inject_Z icx)
        <= Qabs (inject_Z icy) * (1 # 2) + Qabs (inject_Z y * inject_Z icx) * (3 * eps53))%Q).
Proof. exact scale_one_given. Qed.
Print Assumptions C15_scale.

(** fl64 of model/Image.v (round to nearest even, 53-bit significand, unbounded exponent:
    the function the runner computes with, validated bit-exactly against CPython floats by
    the correspondence) meets those premises ... *)
Theorem C15_fl64_premises :
  (forall p q, (p == q)%Q -> (fl64 p == fl64 q)%Q) /\
  (forall q, (Qabs (fl64 q - q) <= Qabs q * eps53)%Q) /\
  (forall z, small z -> (fl64 (inject_Z z) == inject_Z z)%Q).
Proof. exact fl64_premises. Qed.
Print Assumptions C15_fl64_premises.

(** ... so for it the aspect bound holds without premises *)
Theorem C15_scale_fl64 : forall icx icy, small icx -> small icy ->
  (forall x cy, x <> 0 -> truthy cy = false -> icx <> 0 -> small x ->
     exists y, scale fl64 icx icy (Some x) cy = Ok (x, y) /\
       (Qabs (inject_Z y * inject_Z icx - inject_Z x * inject_Z icy)
        <= Qabs (inject_Z icx) * (1 # 2) + Qabs (inject_Z x * inject_Z icy) * (3 * eps53))%Q) /\
  (forall y cx, y <> 0 -> truthy cx = false -> icy <> 0 -> small y ->
     exists x, scale fl64 icx icy cx (Some y) = Ok (x, y) /\
       (Qabs (inject_Z x * inject_Z icy - inject_Z y * inject_Z icx)
        <= Qabs (inject_Z icy) * (1 # 2) + Qabs (inject_Z y * inject_Z icx) * (3 * eps53))%Q).
Proof. exact scale_one_given_fl64. Qed.
Print Assumptions C15_scale_fl64.

(** a zero native dimension (not reachable from an image with pixels and dpi <= 2048, see
    C15_native) makes the division fail: ZeroDivisionError *)
Theorem C15_scale_zero_native : forall fl x cy icy, x <> 0 -> truthy cy = false ->
  scale fl 0 icy (Some x) cy = Err OtherErr.
Proof. exact (fun fl x cy icy Hx Hcy => scale_zero_native fl x cy Hx Hcy icy). Qed.
Print Assumptions C15_scale_zero_native.

(* ------------------------------------------------------------------ non-vacuity *)

(** the empty store and a store shaped like the default template (a thumbnail image part
    that no image relationship reaches) satisfy the invariant *)
Example C15_ex_inv_empty : forall H, Inv H empty_state.
Proof. exact inv_empty. Qed.

Definition ex_png : image :=
  mkImage [137; 80; 78; 71; 1]%N (Meta (Some [80; 78; 71]%N) 7 5 PNoTuple false).
Definition ex_jpg : image :=
  mkImage [255; 216; 255; 2]%N (Meta (Some [74; 80; 69; 71]%N) 3 2 (PTuple (DQ (300 # 1)) (DQ (301 # 2))) false).
Definition ex_ops : list op :=
  [OAddSlide; OImage 0 ex_png (UPicture None None); OAddSlide; OImage 1 ex_jpg (UPicture (Some 914400) None);
   OImage 1 ex_png (UPicture None (Some 0)); OReload; OImage 0 ex_png URelOnly; OImage 0 ex_jpg (UPicture (Some 3) (Some 4))].

(** one concrete history (digest = the bytes, fl = fl64): the PNG added three times on two
    slides with a re-open in between is one part, the JPEG another; names, rIds, types
    and sizes as python-pptx gives them *)
Example C15_ex_history :
  snd (run (fun b => b) fl64 empty_state ex_ops) =
  [ Ok OutUnit;
    Ok (OutImg 1 (image_partname 1 [112; 110; 103]%N) 2 [112; 110; 103]%N
          [105; 109; 97; 103; 101; 47; 112; 110; 103]%N 88900 63500);
    Ok OutUnit;
    Ok (OutImg 2 (image_partname 2 [106; 112; 103]%N) 2 [106; 112; 103]%N
          [105; 109; 97; 103; 101; 47; 106; 112; 101; 103]%N 914400 1219200);
    Ok (OutImg 1 (image_partname 1 [112; 110; 103]%N) 3 [112; 110; 103]%N
          [105; 109; 97; 103; 101; 47; 112; 110; 103]%N 88900 63500);
    Ok OutUnit;
    Ok (OutImg 1 (image_partname 1 [112; 110; 103]%N) 2 [112; 110; 103]%N
          [105; 109; 97; 103; 101; 47; 112; 110; 103]%N 0 0);
    Ok (OutImg 2 (image_partname 2 [106; 112; 103]%N) 3 [106; 112; 103]%N
          [105; 109; 97; 103; 101; 47; 106; 112; 101; 103]%N 3 4) ]
  /\ length (store (final (fun b => b) fl64 empty_state ex_ops)) = 2%nat.
Proof. vm_compute. split; reflexivity. Qed.

(** so the hypotheses of C15_once / C15_same_part / C15_distinct are met *)
Example C15_ex_stored_at :
  stored_at (fun b => b) fl64 empty_state ex_ops 1 ex_png 1 (image_partname 1 [112; 110; 103]%N)
    [112; 110; 103]%N [105; 109; 97; 103; 101; 47; 112; 110; 103]%N /\
  stored_at (fun b => b) fl64 empty_state ex_ops 6 ex_png 1 (image_partname 1 [112; 110; 103]%N)
    [112; 110; 103]%N [105; 109; 97; 103; 101; 47; 112; 110; 103]%N /\
  stored_at (fun b => b) fl64 empty_state ex_ops 3 ex_jpg 2 (image_partname 2 [106; 112; 103]%N)
    [106; 112; 103]%N [105; 109; 97; 103; 101; 47; 106; 112; 101; 103]%N /\
  still_related (fun b => b) fl64 empty_state ex_ops 1 /\ still_related (fun b => b) fl64 empty_state ex_ops 2.
Proof.
  split; [|split; [|split; [|split]]];
    try (unfold stored_at; do 5 eexists; (split; [vm_compute; reflexivity|vm_compute; reflexivity]));
    unfold still_related; vm_compute; tauto.
Qed.

(** REMOVAL followed by re-addition.  Slide 0 gets the PNG twice and is deleted: the PNG
    part is still an object (identity 1) but nothing leads to it and its number is free.
    The JPEG added next takes number 1.  The PNG added again is NOT answered with the
    orphaned object: the look-up walks the relationships, finds no part with those bytes
    and a new object (identity 3) is made under number 2.  Then the relationship of the
    JPEG is dropped (the picture element went): number 1 is free once more and a GIF
    takes it.  After re-opening the orphans are gone and everything answers as before. *)
Definition ex_gif : image :=
  mkImage [71; 73; 70; 56; 57; 97; 3]%N (Meta (Some [71; 73; 70]%N) 4 4 PNoTuple false).
Definition ex_ops_removal : list op :=
  [OAddSlide; OAddSlide; OImage 0 ex_png (UPicture None None); OImage 0 ex_png URelOnly; ODelSlide 0;
   OImage 0 ex_jpg URelOnly; OImage 0 ex_png URelOnly; ODropRel 0 2; OImage 0 ex_gif URelOnly; OReload;
   OImage 0 ex_png URelOnly; OImage 0 ex_jpg URelOnly].

Example C15_ex_removal :
  let r := run (fun b => b) fl64 empty_state ex_ops_removal in
  snd r =
  [ Ok OutUnit; Ok OutUnit;
    Ok (OutImg 1 (image_partname 1 [112; 110; 103]%N) 2 [112; 110; 103]%N
          [105; 109; 97; 103; 101; 47; 112; 110; 103]%N 88900 63500);
    Ok (OutImg 1 (image_partname 1 [112; 110; 103]%N) 2 [112; 110; 103]%N
          [105; 109; 97; 103; 101; 47; 112; 110; 103]%N 0 0);
    Ok (OutStore []);
    Ok (OutImg 2 (image_partname 1 [106; 112; 103]%N) 2 [106; 112; 103]%N
          [105; 109; 97; 103; 101; 47; 106; 112; 101; 103]%N 0 0);
    Ok (OutImg 3 (image_partname 2 [112; 110; 103]%N) 3 [112; 110; 103]%N
          [105; 109; 97; 103; 101; 47; 112; 110; 103]%N 0 0);
    Ok (OutStore [image_partname 2 [112; 110; 103]%N]);
    Ok (OutImg 4 (image_partname 1 [103; 105; 102]%N) 2 [103; 105; 102]%N
          [105; 109; 97; 103; 101; 47; 103; 105; 102]%N 0 0);
    Ok OutUnit;
    Ok (OutImg 3 (image_partname 2 [112; 110; 103]%N) 3 [112; 110; 103]%N
          [105; 109; 97; 103; 101; 47; 112; 110; 103]%N 0 0);
    Ok (OutImg 5 (image_partname 3 [106; 112; 103]%N) 4 [106; 112; 103]%N
          [105; 109; 97; 103; 101; 47; 106; 112; 101; 103]%N 0 0) ]
  /\ map p_id (st_heap (fst r)) = [3; 4; 5]%N
  /\ map p_name (store (fst r)) =
     [image_partname 2 [112; 110; 103]%N; image_partname 1 [103; 105; 102]%N; image_partname 3 [106; 112; 103]%N].
Proof. vm_compute. repeat split; reflexivity. Qed.

(** the hypotheses of C15_once / C15_distinct / C15_orphan_stays are met by it: the PNG
    object of operation 6 and the GIF object of operation 8 are still related at the end;
    the PNG object of operation 2 (identity 1) is an orphan after operation 4 *)
Example C15_ex_removal_hyps :
  stored_at (fun b => b) fl64 empty_state ex_ops_removal 6 ex_png 3 (image_partname 2 [112; 110; 103]%N)
    [112; 110; 103]%N [105; 109; 97; 103; 101; 47; 112; 110; 103]%N /\
  stored_at (fun b => b) fl64 empty_state ex_ops_removal 8 ex_gif 4 (image_partname 1 [103; 105; 102]%N)
    [103; 105; 102]%N [105; 109; 97; 103; 101; 47; 103; 105; 102]%N /\
  still_related (fun b => b) fl64 empty_state ex_ops_removal 3 /\
  still_related (fun b => b) fl64 empty_state ex_ops_removal 4 /\
  (let st5 := final (fun b => b) fl64 empty_state (firstn 5 ex_ops_removal) in
   exists p, In p (st_heap st5) /\ p_id p = 1%N /\ reachable (st_slides st5) p = false /\
             removal (ODelSlide 0) = true).
Proof.
  split; [|split; [|split; [|split]]].
  - unfold stored_at; do 5 eexists; (split; [vm_compute; reflexivity|vm_compute; reflexivity]).
  - unfold stored_at; do 5 eexists; (split; [vm_compute; reflexivity|vm_compute; reflexivity]).
  - unfold still_related; vm_compute; tauto.
  - unfold still_related; vm_compute; tauto.
  - eexists. split; [vm_compute; left; reflexivity|]. vm_compute. auto.
Qed.

Example C15_ex_dpi :
  int_dpi (DQ (72009 # 1000)) = Ok 72 /\ int_dpi (DQ 0) = Ok 72 /\ int_dpi (DQ (5 # 2)) = Ok 2 /\
  int_dpi (DQ (7 # 2)) = Ok 4 /\ int_dpi (DQ (4097 # 2)) = Ok 2048 /\ int_dpi (DQ (4099 # 2)) = Ok 72 /\
  int_dpi (DQ (1 # 2)) = Ok 72 /\ int_dpi (DQ (3 # 2)) = Ok 2 /\
  int_dpi DNan = Ok 72 /\ int_dpi DNonNum = Ok 72 /\ int_dpi DInf = Err OverflowErr.
Proof. vm_compute. repeat split. Qed.

Example C15_ex_native :
  native_size (Meta None 7 5 PNoTuple false) = Ok (88900, 63500) /\
  native_size (Meta None 3 2 (PTuple (DQ (300 # 1)) (DQ (301 # 2))) false) = Ok (9144, 12192) /\
  native_size (Meta None 1 1 (PTuple (DQ (2048 # 1)) (DQ 1)) false) = Ok (446, 914400).
Proof. vm_compute. repeat split. Qed.

Example C15_ex_scale :
  scale fl64 88900 63500 (Some 914400) None = Ok (914400, 653143) /\
  scale fl64 88900 63500 None (Some 914400) = Ok (1280160, 914400) /\
  scale fl64 88900 63500 (Some 0) (Some 5) = Ok (7, 5) /\
  scale fl64 88900 63500 (Some (-10)) None = Ok (-10, -7) /\
  scale fl64 0 63500 (Some 5) None = Err OtherErr /\
  small 914400 /\ small 88900.
Proof. vm_compute. repeat split; discriminate. Qed.

(** the premises of C15_scale are satisfiable *)
Example C15_ex_fl_premises :
  (forall p q, (p == q)%Q -> ((fun x => x) p == (fun x => x) q)%Q) /\
  (forall q, (Qabs ((fun x => x) q - q) <= Qabs q * eps53)%Q) /\
  (forall z, small z -> ((fun x : Q => x) (inject_Z z) == inject_Z z)%Q).
Proof. exact fl_hyps_consistent. Qed.

(** the two repaired behaviours: a TIFF for which Pillow read no XResolution and reports the
    placeholder (1, 1) is sized at 72 dpi, one with the tag keeps its dpi; a blob Pillow
    calls WMF with the EMF signature at offset 40 is stored as emf / image/x-emf, a short or
    different blob as wmf / image/x-wmf *)
Definition ex_emf_blob : blob := repeat 1%N 40 ++ [32; 69; 77; 70; 0; 0]%N.
Example C15_ex_repaired :
  native_size (Meta (Some [84; 73; 70; 70]%N) 64 48 (PTuple (DQ 1) (DQ 1)) false) = Ok (812800, 609600) /\
  native_size (Meta (Some [84; 73; 70; 70]%N) 64 48 (PTuple (DQ (300 # 1)) (DQ (300 # 1))) true) = Ok (195072, 146304) /\
  native_size (Meta (Some [80; 78; 71]%N) 64 48 (PTuple (DQ 1) (DQ 1)) false) = Ok (58521600, 43891200) /\
  image_ext ex_emf_blob (Meta (Some [87; 77; 70]%N) 32 32 PNoTuple false) = Ok [101; 109; 102]%N /\
  ext_content_type [101; 109; 102]%N = Ok [105; 109; 97; 103; 101; 47; 120; 45; 101; 109; 102]%N /\
  image_ext [215; 205; 198; 154]%N (Meta (Some [87; 77; 70]%N) 32 32 PNoTuple false) = Ok [119; 109; 102]%N /\
  ext_content_type [119; 109; 102]%N = Ok [105; 109; 97; 103; 101; 47; 120; 45; 119; 109; 102]%N /\
  image_ext ex_emf_blob (Meta (Some [80; 78; 71]%N) 32 32 PNoTuple false) = Ok [112; 110; 103]%N.
Proof. vm_compute. repeat split. Qed.
