#!/usr/bin/env python3
"""tx_memo: the memoisation sites of python-pptx, re-extracted from the source tree on every run.

The history-based models (C02 package graph, C06 ids, C07/C08 chart data, C09 properties, C12 reads, C13 placeholders,
C15 image store, C17 builders) state which values the code caches between calls (lazyproperty and friends) and which it
recomputes; a theorem over such a model says nothing about a source tree that caches MORE than the model does.  This
translator lists every function whose decorator memoises its result (lazyproperty, functools.lru_cache / cache /
cached_property) and compares the list with tx/memo_known.json, the list the models were written against.  A site that
is new in a file a property is anchored in is an unmodelled construct for that property (fail-closed, like every other
translator here): its check then reports the broken tie unless its own search already produced a failing input.

Run directly with --update to rewrite tx/memo_known.json from the current tree (integrator only, after reading the diff).
"""
import ast, json, os, sys
V = os.path.dirname(os.path.dirname(os.path.abspath(__file__)))
REPO = os.environ.get("VERIF_REPO", "/repo")
MEMO = {"lazyproperty", "lru_cache", "cache", "cached_property"}
KNOWN = os.path.join(V, "tx", "memo_known.json")


def deco_name(d):
    if isinstance(d, ast.Call):
        d = d.func
    if isinstance(d, ast.Attribute):
        return d.attr
    if isinstance(d, ast.Name):
        return d.id
    return None


def scan(repo=REPO):
    sites = []
    root = os.path.join(repo, "src", "pptx")
    for dp, _dn, fn in os.walk(root):
        for f in sorted(fn):
            if not f.endswith(".py"):
                continue
            path = os.path.join(dp, f)
            rel = os.path.relpath(path, repo)
            try:
                tree = ast.parse(open(path, encoding="utf-8").read())
            except SyntaxError as e:
                sites.append("%s:<syntax error %s>" % (rel, e.lineno))
                continue

            def walk(node, prefix):
                for ch in ast.iter_child_nodes(node):
                    if isinstance(ch, ast.ClassDef):
                        walk(ch, prefix + ch.name + ".")
                    elif isinstance(ch, (ast.FunctionDef, ast.AsyncFunctionDef)):
                        for d in ch.decorator_list:
                            n = deco_name(d)
                            if n in MEMO:
                                sites.append("%s:%s%s@%s" % (rel, prefix, ch.name, n))
                        walk(ch, prefix + ch.name + ".")
            walk(tree, "")
    return sorted(set(sites))


def anchors():
    out = {}
    for l in open(os.path.join(V, "properties.jsonl")):
        p = json.loads(l)
        out[p["id"]] = set(p.get("anchors", {}).get("files", []))
    return out


def new_sites_for(pid, repo=REPO):
    """(all current sites in the property's anchor files, those among them the models were not written against)"""
    known = set(json.load(open(KNOWN))["sites"])
    files = anchors().get(pid, set())
    cur = [s for s in scan(repo) if s.split(":", 1)[0] in files]
    return cur, [s for s in cur if s not in known]


if __name__ == "__main__":
    if "--update" in sys.argv:
        json.dump({"comment": "memoisation sites of /repo the models were written against (tx/tx_memo.py --update)", "sites": scan()},
                  open(KNOWN, "w"), indent=1)
        print("memo_known.json: %d sites" % len(scan()))
    else:
        known = set(json.load(open(KNOWN))["sites"])
        cur = scan()
        print("tx_memo: %d memoisation sites, %d new, %d gone" % (len(cur), len([s for s in cur if s not in known]), len([s for s in known if s not in cur])))
