(** A concrete codec for the two OPC meta documents, at the level of code points.

    Writer side (what lxml emits for the trees python-pptx builds):
      src/pptx/opc/package.py   _Relationships.xml  (CT_Relationships.new, add_rel per
                                relationship, xml_file_bytes)
      src/pptx/opc/serialized.py _ContentTypesItem._xml then serialize_part_xml
      src/pptx/opc/oxml.py      CT_Relationship.new sets Id, Type, Target in that order and
                                TargetMode only when the relationship is external (setting
                                an optional attribute to its default removes it);
                                CT_Types.add_default / add_override
                                etree.tostring(encoding=UTF-8, standalone=True)
    The text is the UTF-8 decoding of the bytes: the XML declaration with single quotes,
    a line feed, the root element with its default namespace; an empty root is written as
    an empty-element tag; every child is an empty-element tag; attribute values stand in
    double quotes with the ampersand, less-than, greater-than, double quote, TAB, LF and CR
    escaped (sax_escape_qw of model/Escape.v is exactly that substitution).

    Reader side (parse_xml, then rel.rId / reltype / target_ref / targetMode, resp.
    Default extension / contentType and Override partName / contentType): a recogniser
    for the document shape above.  The text is cut at every double quote, which gives the
    alternation  markup, value, markup, value, ..., markup;  the markup pieces must be
    exactly the ones the writer produces and every value piece is decoded by the
    attribute-value lexer lex_attr of model/Escape.v (references, attribute-value
    normalisation, rejection of non-characters and of a raw less-than sign).  Any other
    text is answered None.  Recursion is structural on the list of pieces.

    Definitions only; proofs are in proofs/OpcCodec_proofs.v. *)
From V.lib Require Import Prelude.
From V.model Require Import Escape PackUri Opc.

(** ---- the literal pieces ---- *)
Definition x_decl : str := (* <?xml version='1.0' encoding='UTF-8' standalone='yes'?> LF *)
  [60; 63; 120; 109; 108; 32; 118; 101; 114; 115; 105; 111; 110; 61; 39; 49; 46; 48; 39; 32; 101; 110; 99; 111; 100; 105; 110; 103; 61; 39; 85; 84; 70; 45; 56; 39; 32; 115; 116; 97; 110; 100; 97; 108; 111; 110; 101; 61; 39; 121; 101; 115; 39; 63; 62; 10]%N.
Definition x_rels_open : str := (* <Relationships xmlns= *)
  [60; 82; 101; 108; 97; 116; 105; 111; 110; 115; 104; 105; 112; 115; 32; 120; 109; 108; 110; 115; 61]%N.
Definition x_rels_ns : str := (* http://schemas.openxmlformats.org/package/2006/relationships *)
  [104; 116; 116; 112; 58; 47; 47; 115; 99; 104; 101; 109; 97; 115; 46; 111; 112; 101; 110; 120; 109; 108; 102; 111; 114; 109; 97; 116; 115; 46; 111; 114; 103; 47; 112; 97; 99; 107; 97; 103; 101; 47; 50; 48; 48; 54; 47; 114; 101; 108; 97; 116; 105; 111; 110; 115; 104; 105; 112; 115]%N.
Definition x_rel_open : str := (* <Relationship Id= *)
  [60; 82; 101; 108; 97; 116; 105; 111; 110; 115; 104; 105; 112; 32; 73; 100; 61]%N.
Definition x_type : str := (* blank Type= *)
  [32; 84; 121; 112; 101; 61]%N.
Definition x_target : str := (* blank Target= *)
  [32; 84; 97; 114; 103; 101; 116; 61]%N.
Definition x_mode : str := (* blank TargetMode= *)
  [32; 84; 97; 114; 103; 101; 116; 77; 111; 100; 101; 61]%N.
Definition x_external : str := (* External *)
  [69; 120; 116; 101; 114; 110; 97; 108]%N.
Definition x_internal : str := (* Internal *)
  [73; 110; 116; 101; 114; 110; 97; 108]%N.
Definition x_gt : str := [62]%N.
Definition x_end : str := (* /> *)
  [47; 62]%N.
Definition x_rels_close : str := (* </Relationships> *)
  [60; 47; 82; 101; 108; 97; 116; 105; 111; 110; 115; 104; 105; 112; 115; 62]%N.
Definition x_types_open : str := (* <Types xmlns= *)
  [60; 84; 121; 112; 101; 115; 32; 120; 109; 108; 110; 115; 61]%N.
Definition x_types_ns : str := (* http://schemas.openxmlformats.org/package/2006/content-types *)
  [104; 116; 116; 112; 58; 47; 47; 115; 99; 104; 101; 109; 97; 115; 46; 111; 112; 101; 110; 120; 109; 108; 102; 111; 114; 109; 97; 116; 115; 46; 111; 114; 103; 47; 112; 97; 99; 107; 97; 103; 101; 47; 50; 48; 48; 54; 47; 99; 111; 110; 116; 101; 110; 116; 45; 116; 121; 112; 101; 115]%N.
Definition x_default_open : str := (* <Default Extension= *)
  [60; 68; 101; 102; 97; 117; 108; 116; 32; 69; 120; 116; 101; 110; 115; 105; 111; 110; 61]%N.
Definition x_override_open : str := (* <Override PartName= *)
  [60; 79; 118; 101; 114; 114; 105; 100; 101; 32; 80; 97; 114; 116; 78; 97; 109; 101; 61]%N.
Definition x_ctattr : str := (* blank ContentType= *)
  [32; 67; 111; 110; 116; 101; 110; 116; 84; 121; 112; 101; 61]%N.
Definition x_types_close : str := (* </Types> *)
  [60; 47; 84; 121; 112; 101; 115; 62]%N.

(** ---- writer ---- *)

(** one attribute value between its double quotes, followed by [k] *)
Definition qattr (v : str) (k : str) : str := c_quot :: sax_escape_qw v ++ c_quot :: k.

(** add_rel(rId, reltype, target, is_external) serialised, followed by [k] *)
Definition enc_rel (r : rel) (k : str) : str :=
  x_rel_open ++ qattr (r_id r) (x_type ++ qattr (r_type r) (x_target ++ qattr (r_target r)
    (if is_ext r then x_mode ++ qattr x_external (x_end ++ k) else x_end ++ k))).

(** _Relationships.xml as text *)
Definition enc_rels_c (l : list rel) : str :=
  x_decl ++ x_rels_open ++ qattr x_rels_ns
    (match l with
     | [] => x_end
     | _ => x_gt ++ fold_right enc_rel x_rels_close l
     end).

Definition enc_default (kv : str * str) (k : str) : str :=
  x_default_open ++ qattr (fst kv) (x_ctattr ++ qattr (snd kv) (x_end ++ k)).
Definition enc_override (kv : str * str) (k : str) : str :=
  x_override_open ++ qattr (fst kv) (x_ctattr ++ qattr (snd kv) (x_end ++ k)).

(** serialize_part_xml of the CT_Types tree: Default children, then Override children *)
Definition enc_ct_c (c : cts) : str :=
  x_decl ++ x_types_open ++ qattr x_types_ns
    (match fst c, snd c with
     | [], [] => x_end
     | _, _ => x_gt ++ fold_right enc_default (fold_right enc_override x_types_close (snd c)) (fst c)
     end).

(** ---- reader ---- *)

(** the text between two double quotes, read as an attribute value *)
Definition attr_val (piece : str) : option str :=
  match lex_attr (c_quot :: piece ++ [c_quot]) with
  | OneValue v => Some v
  | BrokenAttr => None
  end.

(** ST_TargetMode as the loader uses it: compared with the two known words *)
Definition mode_of_text (s : str) : Opc.mode :=
  if str_eqb s x_external then MExt else if str_eqb s x_internal then MInt else MOther.

Definition cons_opt {A} (x : A) (o : option (list A)) : option (list A) :=
  match o with Some l => Some (x :: l) | None => None end.

(** markup between the last value of one child and the first value of the next, and
    after the last value of the last child *)
Definition x_next_rel : str := x_end ++ x_rel_open.
Definition x_last_rel : str := x_end ++ x_rels_close.

(** [ps] starts at the value of Id of a Relationship child *)
Fixpoint dec_rel_pieces (ps : list str) : option (list rel) :=
  match ps with
  | vi :: mt :: vt :: mg :: vg :: m :: more =>
      if str_eqb mt x_type && str_eqb mg x_target then
        match attr_val vi, attr_val vt, attr_val vg with
        | Some i, Some t, Some g =>
            if str_eqb m x_next_rel then cons_opt (mkRel i t g MInt) (dec_rel_pieces more)
            else if str_eqb m x_last_rel then
              match more with [] => Some [mkRel i t g MInt] | _ => None end
            else if str_eqb m x_mode then
              match more with
              | vm :: m2 :: more2 =>
                  match attr_val vm with
                  | Some md =>
                      if str_eqb m2 x_next_rel
                      then cons_opt (mkRel i t g (mode_of_text md)) (dec_rel_pieces more2)
                      else if str_eqb m2 x_last_rel then
                        match more2 with [] => Some [mkRel i t g (mode_of_text md)] | _ => None end
                      else None
                  | None => None
                  end
              | _ => None
              end
            else None
        | _, _, _ => None
        end
      else None
  | _ => None
  end.

Definition dec_rels_c (s : str) : option (list rel) :=
  match split_on c_quot s with
  | p0 :: ns :: rest =>
      if str_eqb p0 (x_decl ++ x_rels_open) && str_eqb ns x_rels_ns then
        match rest with
        | m :: ps =>
            if str_eqb m x_end then match ps with [] => Some [] | _ => None end
            else if str_eqb m (x_gt ++ x_rel_open) then dec_rel_pieces ps
            else None
        | [] => None
        end
      else None
  | _ => None
  end.

(** content types: Default and Override children in any order, collected into the two
    lists in document order (default_lst / override_lst) *)
Definition ct_add (is_default : bool) (kv : str * str) (o : option cts) : option cts :=
  match o with
  | Some (ds, os) => Some (if is_default then (kv :: ds, os) else (ds, kv :: os))
  | None => None
  end.

Definition x_next_default : str := x_end ++ x_default_open.
Definition x_next_override : str := x_end ++ x_override_open.
Definition x_last_ct : str := x_end ++ x_types_close.

(** [ps] starts at the first value of a child; [is_default] says which child it is *)
Fixpoint dec_ct_pieces (is_default : bool) (ps : list str) : option cts :=
  match ps with
  | v1 :: mc :: v2 :: m :: more =>
      if str_eqb mc x_ctattr then
        match attr_val v1, attr_val v2 with
        | Some a, Some b =>
            if str_eqb m x_next_default then ct_add is_default (a, b) (dec_ct_pieces true more)
            else if str_eqb m x_next_override then ct_add is_default (a, b) (dec_ct_pieces false more)
            else if str_eqb m x_last_ct then
              match more with [] => ct_add is_default (a, b) (Some ([], [])) | _ => None end
            else None
        | _, _ => None
        end
      else None
  | _ => None
  end.

Definition dec_ct_c (s : str) : option cts :=
  match split_on c_quot s with
  | p0 :: ns :: rest =>
      if str_eqb p0 (x_decl ++ x_types_open) && str_eqb ns x_types_ns then
        match rest with
        | m :: ps =>
            if str_eqb m x_end then match ps with [] => Some ([], []) | _ => None end
            else if str_eqb m (x_gt ++ x_default_open) then dec_ct_pieces true ps
            else if str_eqb m (x_gt ++ x_override_open) then dec_ct_pieces false ps
            else None
        | [] => None
        end
      else None
  | _ => None
  end.

(** ---- the inputs on which the codec is exact ---- *)

(** every field is a string of XML characters (what lxml accepts at all) and the mode is
    one the writer can express (add_rel takes a boolean) *)
Definition xml_rel (r : rel) : bool :=
  xml_str (r_id r) && xml_str (r_type r) && xml_str (r_target r)
  && match r_mode r with MOther => false | _ => true end.
Definition xml_rels (l : list rel) : bool := forallb xml_rel l.

(** the three strings of a relationship alone *)
Definition xml_fields (r : rel) : bool := xml_str (r_id r) && xml_str (r_type r) && xml_str (r_target r).

Definition xml_pair (kv : str * str) : bool := xml_str (fst kv) && xml_str (snd kv).
Definition xml_cts (c : cts) : bool := forallb xml_pair (fst c) && forallb xml_pair (snd c).

(** the env of model/Opc.v over text, with given payload re-serialiser and tables *)
Definition cenv (rs : str -> option str) (dt : list (str * str)) (xc : list str)
  (idf : list (str * str)) (pc : list str) (od : str) : env str :=
  mkEnv str dec_rels_c enc_rels_c dec_ct_c enc_ct_c rs dt xc idf pc od.

(** ---- the codec hypothesis of the C01 theorems, restricted to the inputs a codec can
    be exact on: [P] the relationship lists, [Q] the content types tables ---- *)
(** the reader gives back what the writer was given *)
Definition codec_rt_on {blob} (P : list rel -> bool) (Q : cts -> bool) (E : env blob) : Prop :=
  (forall l, P l = true -> dec_rels E (enc_rels E l) = Some l) /\
  (forall c, Q c = true -> dec_ct E (enc_ct E c) = Some c).
(** ... and re-serialising a serialised payload changes nothing *)
Definition codec_ok_on {blob} (P : list rel -> bool) (Q : cts -> bool) (E : env blob) : Prop :=
  codec_rt_on P Q E /\ (forall b b', reser E b = Some b' -> reser E b' = Some b').

(** everything [save] hands to the two encoders for the loaded package [k] is such an input *)
Definition writes_ok {blob} (P : list rel -> bool) (Q : cts -> bool) (E : env blob) (k : pkg blob) : Prop :=
  P (out_rels root (k_rels k)) = true /\
  (forall pt, In pt (iter_parts k) -> p_rels pt <> [] -> P (out_rels (p_name pt) (p_rels pt)) = true) /\
  Q (content_types_item E (iter_parts k)) = true.

(** a package whose reachable names, relationship fields and content types are strings of
    XML characters (anything else cannot stand in an XML document or be given to lxml),
    under an env whose initial defaults are such strings *)
Definition xml_package {blob} (E : env blob) (p : phys blob) : Prop :=
  (forall x, reachable E p x -> xml_str x = true) /\
  (forall x rs r, reachable E p x -> rels_for E p x = Some rs -> In r rs ->
     xml_str (r_id r) = true /\ xml_str (r_type r) = true /\ xml_str (r_target r) = true) /\
  (forall x ct, reachable E p x -> ct_in E p x = Ok ct -> xml_str ct = true) /\
  (forall kv, In kv (initdefs E) -> xml_pair kv = true).
