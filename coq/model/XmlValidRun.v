(** Wire entry point for the C03 model: a tree travels as ONE field, a flat list of numbers
      tag, nattrs, (name, len, code points...)*, nkids, kids...
    (the encoding of tx/tx_c03.py, shared by translator and check).
    Cases:
      val | type id or - (root: by global element) | tree
          -> verdict | errors (kind elem what pos ...)      (no exemptions: plain validity)
      ops | type id | tree | ops
          -> order_valid before | all admissible | order_valid after | resulting tree
    where ops is a flat list of  pathlen, path..., opcode, operands:
      1 InsertChild  tree, nsucc, succ...
      2 GetOrAdd     tree, nsucc, succ...
      3 Remove       ntags, tags...
      4 ChangeTo     tree, nmembers, members..., nsucc, succ...
      5 SetAttr      name, 0 (write the text) | 1 (the setter refuses), len, code points...
      6 DelAttr      name
    SetAttr travels with the text already converted: the runner uses the descriptor
    DStrAny on PStr text (writes it as is), or DBool on a string (refused).  *)
From V.lib Require Import Prelude Wire PyFloat PyVal.
From V.model Require Import Schema SchemaMatch Xmlchemy SimpleTypeLib XmlValid.
From V.gen Require Import GenC03.

(** take n numbers *)
Fixpoint take_n (n : nat) (l : list N) : option (list N * list N) :=
  match n with
  | O => Some ([], l)
  | S n' => match l with
            | [] => None
            | x :: l' => match take_n n' l' with Some (a, r) => Some (x :: a, r) | None => None end
            end
  end.

Fixpoint parse_attrs (n : nat) (l : list N) : option (list (aname * str) * list N) :=
  match n with
  | O => Some ([], l)
  | S n' =>
      match l with
      | a :: len :: l' =>
          match take_n (N.to_nat len) l' with
          | Some (v, r) => match parse_attrs n' r with Some (rest, r') => Some ((a, v) :: rest, r') | None => None end
          | None => None
          end
      | _ => None
      end
  end.

(** fuel = length of the stream: every element consumes at least one number *)
Fixpoint parse_node (fuel : nat) (l : list N) : option (node * list N) :=
  match fuel with
  | O => None
  | S f =>
      match l with
      | t :: na :: l1 =>
          match parse_attrs (N.to_nat na) l1 with
          | Some (attrs, nk :: l2) =>
              match (fix kids (k : nat) (l : list N) : option (list node * list N) :=
                       match k with
                       | O => Some ([], l)
                       | S k' => match parse_node f l with
                                 | Some (c, r) => match kids k' r with Some (cs, r') => Some (c :: cs, r') | None => None end
                                 | None => None
                                 end
                       end) (N.to_nat nk) l2 with
              | Some (ks, r) => Some (Elem t attrs ks, r)
              | None => None
              end
          | _ => None
          end
      | _ => None
      end
  end.

Fixpoint show_node (n : node) : list N :=
  match n with
  | Elem t attrs kids =>
      t :: N.of_nat (length attrs)
        :: flat_map (fun av => fst av :: N.of_nat (length (snd av)) :: snd av) attrs
        ++ N.of_nat (length kids)
        :: (fix go (ks : list node) : list N := match ks with [] => [] | k :: ks' => show_node k ++ go ks' end) kids
  end.

Definition show_errs (es : list verr) : str :=
  show_str (flat_map (fun e => [ve_kind e; ve_elem e; ve_what e; ve_pos e]) es).

Definition parse_tags (l : list N) : option (list tag * list N) :=
  match l with n :: r => take_n (N.to_nat n) r | [] => None end.

Definition parse_lop (fuel : nat) (l : list N) : option (lop * list N) :=
  match l with
  | 1%N :: r => match parse_node fuel r with
                | Some (x, r1) => match parse_tags r1 with Some (Sx, r2) => Some (InsertChild x Sx, r2) | None => None end
                | None => None end
  | 2%N :: r => match parse_node fuel r with
                | Some (x, r1) => match parse_tags r1 with Some (Sx, r2) => Some (GetOrAdd x Sx, r2) | None => None end
                | None => None end
  | 3%N :: r => match parse_tags r with Some (ts, r1) => Some (Remove ts, r1) | None => None end
  | 4%N :: r => match parse_node fuel r with
                | Some (x, r1) =>
                    match parse_tags r1 with
                    | Some (ms, r2) => match parse_tags r2 with Some (Sx, r3) => Some (ChangeTo x ms Sx, r3) | None => None end
                    | None => None end
                | None => None end
  | 5%N :: a :: refused :: len :: r =>
      match take_n (N.to_nat len) r with
      | Some (v, r1) => Some (SetAttr a (if N.eqb refused 0 then DStrAny else DBool) (PStr v), r1)
      | None => None end
  | 6%N :: a :: r => Some (DelAttr a, r)
  | _ => None
  end.

Fixpoint parse_ops (fuel : nat) (l : list N) : option (list xop) :=
  match fuel with
  | O => None
  | S f =>
      match l with
      | [] => Some []
      | pl :: r =>
          match take_n (N.to_nat pl) r with
          | Some (p, r1) =>
              match parse_lop (length l) r1 with
              | Some (o, r2) => match parse_ops f r2 with
                                | Some os => Some ({| xo_path := map N.to_nat p; xo_op := o |} :: os)
                                | None => None end
              | None => None end
          | None => None end
      end
  end.

Fixpoint all_adm_b (s : schema) (ty : N) (n : node) (ops : list xop) : bool :=
  match ops with
  | [] => true
  | o :: ops' => adm_op s ty n o && all_adm_b s ty (apply_op n o) ops'
  end.

Definition op_val : str := [118; 97; 108]%N.   (* val *)
Definition op_ops : str := [111; 112; 115]%N.   (* ops *)

Definition run_c03 (args : list str) : str :=
  match args with
  | [op; tys; tree] =>
      if str_eqb op op_val then
        match parse_node (S (length tree)) tree with
        | Some (n, []) =>
            match parse_N tys with
            | Some ty => fields [show_bool (valid_node schema0 [] ty n); show_errs (errs_node schema0 [] ty n)]
            | None => fields [show_bool (valid_root schema0 [] n); show_errs (errs_root schema0 [] n)]
            end
        | _ => w_badcase
        end
      else w_badcase
  | [op; tys; tree; ops] =>
      if str_eqb op op_ops then
        match parse_node (S (length tree)) tree, parse_N tys, parse_ops (S (length ops)) ops with
        | Some (n, []), Some ty, Some os =>
            let n' := run_ops n os in
            fields [show_bool (order_valid schema0 ty n); show_bool (all_adm_b schema0 ty n os);
                    show_bool (order_valid schema0 ty n'); show_str (show_node n')]
        | _, _, _ => w_badcase
        end
      else w_badcase
  | _ => w_badcase
  end.
