(* Generic driver body, compiled after [open <ExtractedModule>] so that the Coq
   constructors XI/XO/XH/N0/Npos of that module are in scope.  A runner has type
   [n list list -> n list] (Coq [list str -> str]; code points are Coq [N]).
   stdin: one case per line; fields separated by TAB; each field is a
   comma-separated list of decimal code points ("-" for the empty string).
   stdout: one line per case: the result code points encoded as UTF-8. *)
let rec pos_of_int i =
  if i = 1 then XH
  else if i land 1 = 0 then XO (pos_of_int (i lsr 1))
  else XI (pos_of_int (i lsr 1))
let n_of_int i = if i = 0 then N0 else Npos (pos_of_int i)
let rec int_of_pos = function
  | XH -> 1 | XO p -> 2 * int_of_pos p | XI p -> 2 * int_of_pos p + 1
let int_of_n = function N0 -> 0 | Npos p -> int_of_pos p

let parse_field (f : string) =
  if f = "-" || f = "" then []
  else List.map (fun t -> n_of_int (int_of_string t)) (String.split_on_char ',' f)

let add_utf8 buf cp =
  if cp < 0x80 then Buffer.add_char buf (Char.chr cp)
  else if cp < 0x800 then begin
    Buffer.add_char buf (Char.chr (0xC0 lor (cp lsr 6)));
    Buffer.add_char buf (Char.chr (0x80 lor (cp land 0x3F))) end
  else if cp < 0x10000 then begin
    Buffer.add_char buf (Char.chr (0xE0 lor (cp lsr 12)));
    Buffer.add_char buf (Char.chr (0x80 lor ((cp lsr 6) land 0x3F)));
    Buffer.add_char buf (Char.chr (0x80 lor (cp land 0x3F))) end
  else begin
    Buffer.add_char buf (Char.chr (0xF0 lor (cp lsr 18)));
    Buffer.add_char buf (Char.chr (0x80 lor ((cp lsr 12) land 0x3F)));
    Buffer.add_char buf (Char.chr (0x80 lor ((cp lsr 6) land 0x3F)));
    Buffer.add_char buf (Char.chr (0x80 lor (cp land 0x3F))) end

let main run =
  let buf = Buffer.create 65536 in
  (try
    while true do
      let line = input_line stdin in
      let args = List.map parse_field (String.split_on_char '\t' line) in
      let out = run args in
      List.iter (fun c -> add_utf8 buf (int_of_n c)) out;
      Buffer.add_char buf '\n';
      if Buffer.length buf > 60000 then (print_string (Buffer.contents buf); Buffer.clear buf)
    done
  with End_of_file -> ());
  print_string (Buffer.contents buf)
