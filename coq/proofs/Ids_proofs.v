(** Proofs about model/Ids.v (C06).  Each headline lemma is re-stated in props/C06.v
    and closed there by exact. *)
From Coq Require Import Permutation Sorted.
From V.lib Require Import Prelude Wire.
From V.model Require Import PackUri Ids.
From V.proofs Require Import Prelude_proofs PackUri_proofs.

Local Open Scope Z_scope.

(* ============================================================================== *)
(** * Generic helpers *)

Lemma mapM_ok {A B} (f : A -> res B) l ys :
  mapM f l = Ok ys <-> Forall2 (fun x y => f x = Ok y) l ys.
Proof.
  revert ys; induction l as [|x l IH]; intros ys; simpl.
  - split; intros H.
    + inversion H; constructor.
    + inversion H; reflexivity.
  - destruct (f x) as [y|e] eqn:Ex; simpl.
    + destruct (mapM f l) as [zs|e] eqn:El; simpl.
      * split; intros H.
        -- inversion H; subst. constructor; auto. apply IH; reflexivity.
        -- inversion H as [|? y' ? zs' Hxy Hrest]; subst.
           rewrite Ex in Hxy; inversion Hxy; subst.
           apply IH in Hrest. inversion Hrest; reflexivity.
      * split; intros H; [discriminate|].
        inversion H as [|? y' ? zs' Hxy Hrest]; subst. apply IH in Hrest; discriminate.
    + split; intros H; [discriminate|].
      inversion H as [|? y' ? zs' Hxy Hrest]; subst. rewrite Ex in Hxy; discriminate.
Qed.

Lemma mapM_err {A B} (f : A -> res B) l e :
  mapM f l = Err e -> exists x, In x l /\ f x = Err e.
Proof.
  induction l as [|x l IH]; simpl; [discriminate|].
  destruct (f x) as [y|e'] eqn:Ex; simpl.
  - destruct (mapM f l) as [zs|e''] eqn:El; simpl; [discriminate|].
    intros H; inversion H; subst. destruct (IH eq_refl) as [x' [Hin Hx']]. eauto.
  - intros H; inversion H; subst. eauto.
Qed.

Lemma mapM_all_ok {A B} (f : A -> res B) l :
  (forall x, In x l -> exists y, f x = Ok y) -> exists ys, mapM f l = Ok ys.
Proof.
  induction l as [|x l IH]; intros H; simpl; [eauto|].
  destruct (H x (or_introl eq_refl)) as [y Hy]. rewrite Hy; simpl.
  destruct IH as [ys Hys]; [intros; apply H; right; auto|]. rewrite Hys; simpl; eauto.
Qed.

Lemma mapM_app {A B} (f : A -> res B) l1 l2 y1 y2 :
  mapM f l1 = Ok y1 -> mapM f l2 = Ok y2 -> mapM f (l1 ++ l2) = Ok (y1 ++ y2).
Proof.
  intros H1 H2. apply mapM_ok. apply Forall2_app; apply mapM_ok; auto.
Qed.

Lemma memZ_In x l : memZ x l = true <-> In x l.
Proof.
  unfold memZ; rewrite existsb_exists; split.
  - intros [y [Hy He]]. apply Z.eqb_eq in He; subst; auto.
  - intros H; exists x; split; auto. apply Z.eqb_refl.
Qed.

Lemma max_from_spec x l :
  x <= max_from x l /\ (forall y, In y l -> y <= max_from x l) /\
  (max_from x l = x \/ In (max_from x l) l).
Proof.
  unfold max_from. revert x; induction l as [|a l IH]; intros x; simpl.
  - split; [lia|]. split; [intros y []|auto].
  - destruct (IH (Z.max x a)) as [H1 [H2 H3]]. split; [lia|]. split.
    + intros y [->|Hy]; [lia|auto].
    + destruct H3 as [H3|H3]; [|auto].
      destruct (Z.max_spec x a) as [[_ E]|[_ E]]; rewrite E in *.
      * right; left; auto.
      * left; auto.
Qed.

(** consecutive integers *)
Fixpoint zseq (start : Z) (len : nat) : list Z :=
  match len with O => [] | S k => start :: zseq (start + 1) k end.

Lemma zseq_In s len x : In x (zseq s len) <-> s <= x < s + Z.of_nat len.
Proof.
  revert s; induction len as [|k IH]; intros s; simpl zseq.
  - simpl; lia.
  - simpl In. rewrite IH. lia.
Qed.

Lemma zseq_NoDup s len : NoDup (zseq s len).
Proof.
  revert s; induction len as [|k IH]; intros s; simpl; constructor; auto.
  rewrite zseq_In; lia.
Qed.

Lemma zseq_length s len : length (zseq s len) = len.
Proof. revert s; induction len; intros; simpl; auto. Qed.

(* ============================================================================== *)
(** * Decimal rendering is injective and is read back by [dec_value] *)

Definition dstep (acc c : N) : N := (acc * 10 + (c - 48))%N.

Lemma dec_digits_fuel_spec fuel : forall n acc,
  (n < 10 ^ N.of_nat fuel)%N ->
  fold_left dstep (dec_digits_fuel fuel n acc) 0%N = fold_left dstep acc n.
Proof.
  induction fuel as [|f IH]; intros n acc Hn.
  - simpl in Hn. assert (n = 0)%N by lia. subst. reflexivity.
  - cbn [dec_digits_fuel]. destruct (n <? 10)%N eqn:E.
    + apply N.ltb_lt in E. cbn [fold_left]. unfold dstep at 2.
      rewrite N.mod_small by lia. f_equal. rewrite (N.add_comm 48), N.add_sub. reflexivity.
    + apply N.ltb_ge in E. rewrite IH.
      * cbn [fold_left]. f_equal. unfold dstep.
        rewrite (N.add_comm 48), N.add_sub, N.mul_comm. symmetry. apply N.div_mod. discriminate.
      * rewrite Nnat.Nat2N.inj_succ, N.pow_succ_r' in Hn.
        apply N.div_lt_upper_bound; lia.
Qed.

Lemma size_pow10 n : (n < 10 ^ N.of_nat (S (N.to_nat (N.size n))))%N.
Proof.
  rewrite Nnat.Nat2N.inj_succ, Nnat.N2Nat.id.
  destruct n as [|p]; [simpl; lia|].
  pose proof (N.size_gt (N.pos p)) as H.
  assert (2 ^ N.size (N.pos p) <= 10 ^ N.size (N.pos p))%N by (apply N.pow_le_mono_l; lia).
  rewrite N.pow_succ_r'. lia.
Qed.

Lemma dec_value_dec_of_N n : dec_value (dec_of_N n) = n.
Proof.
  unfold dec_value, dec_of_N.
  change (fun acc c : N => (acc * 10 + (c - 48))%N) with dstep.
  rewrite dec_digits_fuel_spec by apply size_pow10. reflexivity.
Qed.

Lemma dec_of_N_inj a b : dec_of_N a = dec_of_N b -> a = b.
Proof. intros H. rewrite <- (dec_value_dec_of_N a), <- (dec_value_dec_of_N b), H. reflexivity. Qed.

Lemma dec_digits_fuel_digits fuel : forall n acc,
  forallb is_digit acc = true -> forallb is_digit (dec_digits_fuel fuel n acc) = true.
Proof.
  induction fuel as [|f IH]; intros n acc Ha; cbn [dec_digits_fuel]; auto.
  assert (Hd : is_digit (48 + n mod 10)%N = true).
  { unfold is_digit. pose proof (N.mod_upper_bound n 10 ltac:(discriminate)) as Hm.
    set (m := (n mod 10)%N) in *. clearbody m.
    apply andb_true_iff; split; apply N.leb_le; lia. }
  assert (Hc : forallb is_digit ((48 + n mod 10)%N :: acc) = true).
  { cbn [forallb]. rewrite Hd, Ha. reflexivity. }
  destruct (n <? 10)%N; auto.
Qed.

Lemma dec_of_N_digits n : forallb is_digit (dec_of_N n) = true.
Proof. apply dec_digits_fuel_digits. reflexivity. Qed.

Lemma dec_digits_fuel_nonnil fuel n acc : fuel <> O -> dec_digits_fuel fuel n acc <> [].
Proof.
  revert n acc; induction fuel as [|f IH]; intros n acc Hf; [congruence|].
  simpl. destruct (n <? 10)%N; [discriminate|].
  destruct f as [|f']; [simpl; discriminate|]. apply IH. discriminate.
Qed.

Lemma dec_of_N_nonnil n : dec_of_N n <> [].
Proof. apply dec_digits_fuel_nonnil. discriminate. Qed.

Lemma dec_digits_fuel_length fuel : forall n acc,
  (length (dec_digits_fuel fuel n acc) <= fuel + length acc)%nat.
Proof.
  induction fuel as [|f IH]; intros n acc; simpl; [lia|].
  destruct (n <? 10)%N; simpl; [lia|].
  specialize (IH (n / 10)%N ((48 + n mod 10)%N :: acc)). simpl in IH. lia.
Qed.

Lemma dec_of_N_length n : (length (dec_of_N n) <= S (N.to_nat (N.size n)))%nat.
Proof. unfold dec_of_N. pose proof (dec_digits_fuel_length (S (N.to_nat (N.size n))) n []). simpl in *. lia. Qed.

(* ============================================================================== *)
(** * int of a str and str.isdigit *)

Lemma is_digit_range c : is_digit c = true <-> (48 <= c <= 57)%N.
Proof.
  unfold is_digit. rewrite andb_true_iff, !N.leb_le. tauto.
Qed.

Lemma tok_of_digit c : is_digit c = true -> tok_of c = TDigit (c - 48)%N.
Proof.
  intros H. pose proof (proj1 (is_digit_range c) H) as [H1 H2].
  unfold tok_of.
  replace (c <? 127)%N with true by (symmetry; apply N.ltb_lt; lia).
  replace (is_ascii_space c) with false.
  - rewrite H. reflexivity.
  - symmetry. unfold is_ascii_space. apply orb_false_iff; split.
    + apply andb_false_iff; right. apply N.leb_gt; lia.
    + apply N.eqb_neq; lia.
Qed.

Definition zstep (a : Z) (c : N) : Z := a * 10 + Z.of_N (c - 48).

Lemma scan_ascii_digits s : forall acc cnt, forallb is_digit s = true ->
  scan_digits (map tok_of s) false acc cnt
  = Some (fold_left zstep s acc, (cnt + N.of_nat (length s))%N, []).
Proof.
  induction s as [|c s IH]; intros acc cnt H.
  - simpl. rewrite N.add_0_r. reflexivity.
  - cbn [forallb] in H. apply andb_true_iff in H as [Hc Hs].
    cbn [map]. rewrite (tok_of_digit c Hc). cbn [scan_digits].
    rewrite IH by auto. cbn [fold_left length]. unfold zstep at 2.
    f_equal. f_equal. f_equal. lia.
Qed.

Lemma zstep_dstep s : forall a, fold_left zstep s (Z.of_N a) = Z.of_N (fold_left dstep s a).
Proof.
  induction s as [|c s IH]; intros a; simpl; auto.
  rewrite <- IH. f_equal. unfold zstep, dstep. lia.
Qed.

Lemma py_int_ascii_digits s : s <> [] -> forallb is_digit s = true ->
  py_int s = if (max_str_digits <? N.of_nat (length s))%N then Err ValueErr
             else Ok (Z.of_N (dec_value s)).
Proof.
  intros Hne Hd. destruct s as [|c s]; [congruence|].
  pose proof Hd as Hd'. cbn [forallb] in Hd'. apply andb_true_iff in Hd' as [Hc Hs].
  unfold py_int.
  assert (E : map tok_of (c :: s) = TDigit (c - 48)%N :: map tok_of s)
    by (cbn [map]; rewrite (tok_of_digit c Hc); reflexivity).
  assert (Edrop : drop_while is_tspace (map tok_of (c :: s)) = map tok_of (c :: s))
    by (rewrite E; reflexivity).
  rewrite Edrop. rewrite E. cbv beta iota. unfold parse_unsigned. rewrite <- E.
  rewrite (scan_ascii_digits (c :: s) 0 0%N Hd).
  cbn [forallb]. rewrite N.add_0_l.
  change 0 with (Z.of_N 0). rewrite zstep_dstep. unfold dec_value.
  change (fun acc c0 : N => (acc * 10 + (c0 - 48))%N) with dstep.
  reflexivity.
Qed.

Lemma py_int_dec_of_N n v : py_int (dec_of_N n) = Ok v -> v = Z.of_N n.
Proof.
  rewrite py_int_ascii_digits by (apply dec_of_N_nonnil || apply dec_of_N_digits).
  destruct (max_str_digits <? _)%N; [discriminate|].
  rewrite dec_value_dec_of_N. congruence.
Qed.

Lemma py_int_dec_of_N_small n : (N.size n < 4000)%N -> py_int (dec_of_N n) = Ok (Z.of_N n).
Proof.
  intros Hs.
  rewrite py_int_ascii_digits by (apply dec_of_N_nonnil || apply dec_of_N_digits).
  pose proof (dec_of_N_length n) as HL.
  replace (max_str_digits <? N.of_nat (length (dec_of_N n)))%N with false.
  - rewrite dec_value_dec_of_N. reflexivity.
  - symmetry. apply N.ltb_ge. unfold max_str_digits. lia.
Qed.

Lemma decimal_in_hd z zs c :
  (z <=? c)%N && (c <=? z + 9)%N = true -> decimal_in (z :: zs) c = Some (c - z)%N.
Proof. intros H. cbn [decimal_in]. rewrite H. reflexivity. Qed.

Lemma py_isdigit_char_ascii c : is_digit c = true -> py_isdigit_char c = true.
Proof.
  intros H. apply is_digit_range in H as [H1 H2].
  unfold py_isdigit_char, py_decimal, decimal_zeros.
  rewrite decimal_in_hd; auto.
  apply andb_true_iff; split; apply N.leb_le; lia.
Qed.

Lemma py_isdigit_ascii s : s <> [] -> forallb is_digit s = true -> py_isdigit s = true.
Proof.
  intros Hne H. destruct s as [|c s]; [congruence|]. unfold py_isdigit.
  apply forallb_true_iff. apply forallb_true_iff in H.
  eapply Forall_impl; [|exact H]. intros a. apply py_isdigit_char_ascii.
Qed.

Lemma py_isdigit_dec_of_N n : py_isdigit (dec_of_N n) = true.
Proof. apply py_isdigit_ascii; [apply dec_of_N_nonnil | apply dec_of_N_digits]. Qed.

(** ** non-negativity: a string without the minus sign never parses to a negative *)

Lemma tok_minus c : tok_of c = TMinus -> c = 45%N.
Proof.
  unfold tok_of. destruct (c <? 127)%N.
  - destruct (is_ascii_space c); [discriminate|].
    destruct (is_digit c); [discriminate|].
    destruct (N.eqb c 43); [discriminate|].
    destruct (N.eqb_spec c 45); [auto|].
    destruct (N.eqb c 95); discriminate.
  - destruct (existsb (in_rng c) uni_space_ranges); [discriminate|].
    destruct (py_decimal c); discriminate.
Qed.

Lemma scan_digits_nonneg l : forall b acc cnt v c r,
  scan_digits l b acc cnt = Some (v, c, r) -> 0 <= acc -> 0 <= v.
Proof.
  induction l as [|t l IH]; intros b acc cnt v c r H Ha.
  - simpl in H. destruct b; [discriminate|]. inversion H; subst; auto.
  - destruct t; cbn [scan_digits] in H;
      try (destruct b; [discriminate|]; inversion H; subst; auto; fail).
    + eapply IH; [exact H|]. lia.
    + destruct b; [discriminate|]. eapply IH; eauto.
Qed.

Lemma parse_unsigned_nonneg l v : parse_unsigned l = Ok v -> 0 <= v.
Proof.
  unfold parse_unsigned. destruct l as [|t l]; [discriminate|].
  destruct t; try discriminate.
  destruct (scan_digits _ _ _ _) as [[[v' c] r]|] eqn:E; [|discriminate].
  destruct (forallb is_tspace r); [|discriminate].
  destruct (max_str_digits <? c)%N; [discriminate|].
  intros H; inversion H; subst. eapply scan_digits_nonneg; [exact E|lia].
Qed.

Lemma drop_while_In {A} (f : A -> bool) l x r : drop_while f l = x :: r -> In x l.
Proof.
  induction l as [|y l IH]; simpl; [discriminate|].
  destruct (f y); intros H; [right; auto|]. inversion H; subst; left; auto.
Qed.

Lemma py_int_nonneg s v : py_int s = Ok v -> ~ In 45%N s -> 0 <= v.
Proof.
  unfold py_int. intros H Hn.
  destruct (drop_while is_tspace (map tok_of s)) as [|t r] eqn:E.
  - apply parse_unsigned_nonneg in H; auto.
  - destruct t; try (apply parse_unsigned_nonneg in H; auto; fail).
    exfalso. apply drop_while_In in E. apply in_map_iff in E as [c [Hc Hin]].
    apply tok_minus in Hc. subst; auto.
Qed.

Lemma isdigit_char_not_minus : py_isdigit_char 45%N = false.
Proof. vm_compute. reflexivity. Qed.

Lemma py_isdigit_no_minus s : py_isdigit s = true -> ~ In 45%N s.
Proof.
  intros H Hin. destruct s as [|c s]; [discriminate|]. unfold py_isdigit in H.
  rewrite forallb_forall in H. specialize (H _ Hin). rewrite isdigit_char_not_minus in H. discriminate.
Qed.

Lemma py_int_isdigit_nonneg s v : py_isdigit s = true -> py_int s = Ok v -> 0 <= v.
Proof. intros H1 H2. eapply py_int_nonneg; eauto. apply py_isdigit_no_minus; auto. Qed.

Lemma py_decimal_ascii c : is_digit c = true -> is_dec c = true.
Proof.
  intros H. apply is_digit_range in H as [H1 H2].
  unfold is_dec, py_decimal, decimal_zeros. rewrite decimal_in_hd; auto.
  apply andb_true_iff; split; apply N.leb_le; lia.
Qed.

Lemma py_isdecimal_dec_of_N n : py_isdecimal (dec_of_N n) = true.
Proof.
  pose proof (dec_of_N_nonnil n) as Hne. pose proof (dec_of_N_digits n) as H.
  destruct (dec_of_N n) as [|c s]; [congruence|]. unfold py_isdecimal.
  apply forallb_true_iff. apply forallb_true_iff in H.
  eapply Forall_impl; [|exact H]. intros a. apply py_decimal_ascii.
Qed.

Lemma is_dec_isdigit_char c : is_dec c = true -> py_isdigit_char c = true.
Proof. unfold is_dec, py_isdigit_char. destruct (py_decimal c); [auto|discriminate]. Qed.

Lemma py_isdecimal_isdigit s : py_isdecimal s = true -> py_isdigit s = true /\ forallb is_dec s = true.
Proof.
  destruct s as [|c s]; [discriminate|]. unfold py_isdecimal, py_isdigit. intros H. split; auto.
  apply forallb_true_iff. apply forallb_true_iff in H.
  eapply Forall_impl; [|exact H]. intros a. apply is_dec_isdigit_char.
Qed.

Lemma py_int_isdecimal_nonneg s v : py_isdecimal s = true -> py_int s = Ok v -> 0 <= v.
Proof. intros H. apply py_int_isdigit_nonneg. apply py_isdecimal_isdigit; auto. Qed.

Lemma parse_unsigned_err l e : parse_unsigned l = Err e -> e = ValueErr.
Proof.
  unfold parse_unsigned. destruct l as [|t l]; [congruence|].
  destruct t; try congruence.
  destruct (scan_digits _ _ _ _) as [[[v c] r]|]; [|congruence].
  destruct (forallb is_tspace r); [|congruence].
  destruct (max_str_digits <? c)%N; congruence.
Qed.

Lemma py_int_err s e : py_int s = Err e -> e = ValueErr.
Proof.
  unfold py_int. destruct (drop_while is_tspace (map tok_of s)) as [|t r].
  - apply parse_unsigned_err.
  - destruct t; try apply parse_unsigned_err.
    destruct (parse_unsigned r) eqn:E; simpl; [discriminate|].
    intros H; inversion H; subst. eapply parse_unsigned_err; eauto.
Qed.

(* ============================================================================== *)
(** * Shape ids *)

Lemma num_ids_app a b : num_ids (a ++ b) = num_ids a ++ num_ids b.
Proof.
  induction a as [|s a IH]; simpl; auto.
  destruct (py_isdecimal s); auto. destruct (py_int s); simpl; congruence.
Qed.

Lemma num_ids_In v ids :
  In v (num_ids ids) <-> exists s, In s ids /\ py_isdecimal s = true /\ py_int s = Ok v.
Proof.
  induction ids as [|s ids IH]; simpl.
  - split; [tauto|]. intros [s [[] _]].
  - destruct (py_isdecimal s) eqn:Ed.
    + destruct (py_int s) as [w|e] eqn:Ei.
      * simpl. rewrite IH. split.
        -- intros [->|[s' [H1 H2]]]; [exists s; auto|exists s'; tauto].
        -- intros [s' [[->|H1] [H2 H3]]]; [left; congruence|right; eauto].
      * rewrite IH. split.
        -- intros [s' [H1 H2]]; exists s'; tauto.
        -- intros [s' [[->|H1] [H2 H3]]]; [congruence|eauto].
    + rewrite IH. split.
      * intros [s' [H1 H2]]; exists s'; tauto.
      * intros [s' [[->|H1] [H2 H3]]]; [congruence|eauto].
Qed.

Lemma num_ids_nonneg ids v : In v (num_ids ids) -> 0 <= v.
Proof.
  rewrite num_ids_In. intros [s [_ [H1 H2]]]. eapply py_int_isdecimal_nonneg; eauto.
Qed.

(** the list comprehension either succeeds with exactly [num_ids], or raises ValueError
    because of one identified string *)
Lemma used_ids_cases ids :
  (used_ids ids = Ok (num_ids ids) /\
   forall s, In s ids -> py_isdecimal s = true -> exists v, py_int s = Ok v)
  \/ (used_ids ids = Err ValueErr /\
      exists s, In s ids /\ py_isdecimal s = true /\ py_int s = Err ValueErr).
Proof.
  unfold used_ids. induction ids as [|s ids IH]; simpl.
  - left; split; auto. intros s [].
  - destruct (py_isdecimal s) eqn:Ed; simpl.
    + destruct (py_int s) as [w|e] eqn:Ei; simpl.
      * destruct IH as [[H1 H2]|[H1 [s' [Ha [Hb Hc]]]]].
        -- left. rewrite H1; simpl. split; auto.
           intros s' [->|Hin] Hd'; eauto.
        -- right. rewrite H1; simpl. split; auto. exists s'; auto.
      * right. pose proof (py_int_err _ _ Ei); subst. split; auto. exists s; auto.
    + destruct IH as [[H1 H2]|[H1 [s' [Ha [Hb Hc]]]]].
      * left; split; auto. intros s' [->|Hin] Hd'; [congruence|eauto].
      * right; split; auto. exists s'; auto.
Qed.

Lemma max_of_used_ge u y : In y u -> y <= max_of_used u.
Proof.
  destruct u as [|x r]; [intros []|]. simpl.
  destruct (max_from_spec x r) as [H1 [H2 _]]. intros [->|H]; auto.
Qed.

Lemma max_of_used_nonneg u : (forall v, In v u -> 0 <= v) -> 0 <= max_of_used u.
Proof.
  destruct u as [|x r]; simpl; [lia|]. intros H.
  destruct (max_from_spec x r) as [H1 _]. specialize (H x (or_introl eq_refl)). lia.
Qed.

Lemma show_Z_pos r : 0 < r -> show_Z r = dec_of_N (Z.to_N r).
Proof. destruct r; try lia. reflexivity. Qed.

(** a numeral already present as an id string is seen by the allocators *)
Lemma numeral_seen ids r : 0 < r -> In (show_Z r) ids ->
  (forall s, In s ids -> py_isdecimal s = true -> exists v, py_int s = Ok v) ->
  In r (num_ids ids).
Proof.
  intros Hr Hin Hall. rewrite show_Z_pos in Hin by auto.
  apply num_ids_In. exists (dec_of_N (Z.to_N r)). split; auto.
  split; [apply py_isdecimal_dec_of_N|].
  destruct (Hall _ Hin (py_isdecimal_dec_of_N _)) as [v Hv].
  rewrite Hv. f_equal. apply py_int_dec_of_N in Hv. lia.
Qed.

Lemma next_shape_id_max_ok ids r : next_shape_id_max ids = Ok r ->
  used_ids ids = Ok (num_ids ids) /\ r = max_of_used (num_ids ids) + 1.
Proof.
  unfold next_shape_id_max, max_shape_id.
  destruct (used_ids_cases ids) as [[H1 H2]|[H1 _]]; rewrite H1; simpl; [|discriminate].
  intros H; inversion H; auto.
Qed.

Theorem shape_max_fresh ids r : next_shape_id_max ids = Ok r ->
  0 < r /\ (forall v, In v (num_ids ids) -> v < r) /\ ~ In r (num_ids ids) /\ ~ In (show_Z r) ids.
Proof.
  intros H. destruct (next_shape_id_max_ok _ _ H) as [Hu ->].
  assert (Hlt : forall v, In v (num_ids ids) -> v < max_of_used (num_ids ids) + 1).
  { intros v Hv. pose proof (max_of_used_ge _ _ Hv). lia. }
  assert (Hpos : 0 < max_of_used (num_ids ids) + 1).
  { pose proof (max_of_used_nonneg (num_ids ids) (num_ids_nonneg ids)). lia. }
  split; auto. split; auto. split.
  - intros Hin. specialize (Hlt _ Hin). lia.
  - intros Hin. destruct (used_ids_cases ids) as [[_ H2]|[H1 _]]; [|congruence].
    pose proof (numeral_seen ids _ Hpos Hin H2) as Hs. specialize (Hlt _ Hs). lia.
Qed.

(** the exact condition under which the scan raises, and the only exception it raises *)
Theorem shape_alloc_raises_iff ids :
  (exists e, next_shape_id_max ids = Err e) <->
  exists s, In s ids /\ py_isdecimal s = true /\ py_int s = Err ValueErr.
Proof.
  unfold next_shape_id_max, max_shape_id.
  destruct (used_ids_cases ids) as [[H1 H2]|[H1 H3]]; rewrite H1; simpl.
  - split; [intros [e He]; discriminate|].
    intros [s [Ha [Hb Hc]]]. destruct (H2 s Ha Hb) as [v Hv]. congruence.
  - split; auto. intros _. exists ValueErr; reflexivity.
Qed.

Lemma shape_alloc_err_kind ids e : next_shape_id_max ids = Err e -> e = ValueErr.
Proof.
  unfold next_shape_id_max, max_shape_id.
  destruct (used_ids_cases ids) as [[H1 _]|[H1 _]]; rewrite H1; simpl; congruence.
Qed.

(** ** first-gap allocator *)
Lemma first_gap_spec fuel : forall n u,
  match first_gap fuel n u with
  | Some m => n <= m < n + Z.of_nat fuel /\ ~ In m u /\ (forall k, n <= k < m -> In k u)
  | None => forall k, n <= k < n + Z.of_nat fuel -> In k u
  end.
Proof.
  induction fuel as [|f IH]; intros n u.
  - simpl. intros k Hk. lia.
  - cbn [first_gap]. destruct (memZ n u) eqn:E.
    + apply memZ_In in E. specialize (IH (n + 1) u).
      destruct (first_gap f (n + 1) u) as [m|].
      * destruct IH as [H1 [H2 H3]]. split; [lia|]. split; auto.
        intros k Hk. destruct (Z.eq_dec k n); [subst; auto|apply H3; lia].
      * intros k Hk. destruct (Z.eq_dec k n); [subst; auto|apply IH; lia].
    + split; [lia|]. split.
      * intros Hin. apply memZ_In in Hin. congruence.
      * intros k Hk. lia.
Qed.

Lemma first_gap_total u n : first_gap (S (length u)) n u <> None.
Proof.
  intros H. pose proof (first_gap_spec (S (length u)) n u) as Hs. rewrite H in Hs.
  assert (Hincl : incl (zseq n (S (length u))) u).
  { intros k Hk. apply zseq_In in Hk. apply Hs. lia. }
  pose proof (NoDup_incl_length (zseq_NoDup n (S (length u))) Hincl) as Hl.
  rewrite zseq_length in Hl. lia.
Qed.

Theorem shape_gap_fresh ids :
  next_shape_id_gap ids <> Err TypeErr /\
  forall r, next_shape_id_gap ids = Ok r ->
    1 <= r /\ ~ In r (num_ids ids) /\ (forall k, 1 <= k < r -> In k (num_ids ids)) /\
    ~ In (show_Z r) ids.
Proof.
  unfold next_shape_id_gap.
  destruct (used_ids_cases ids) as [[H1 H2]|[H1 _]]; rewrite H1; cbn [bind]; [|split; congruence].
  pose proof (first_gap_spec (S (length (num_ids ids))) 1 (num_ids ids)) as Hs.
  pose proof (first_gap_total (num_ids ids) 1) as Ht.
  destruct (first_gap _ _ _) as [m|]; [|congruence].
  split; [discriminate|]. intros r Hr; inversion Hr; subst.
  destruct Hs as [Ha [Hb Hc]]. split; [lia|]. split; auto. split; auto.
  intros Hin. apply Hb. apply numeral_seen; auto. lia.
Qed.

Lemma shape_gap_err_kind ids e : next_shape_id_gap ids = Err e -> e = ValueErr.
Proof.
  intros H. destruct (shape_gap_fresh ids) as [Hn _].
  unfold next_shape_id_gap in *.
  destruct (used_ids_cases ids) as [[H1 _]|[H1 _]]; rewrite H1 in *; cbn [bind] in *; [|congruence].
  destruct (first_gap _ _ _); congruence.
Qed.

(** ** time-node ids *)
Theorem ctn_fresh ids r : next_cTn_id ids = Ok r ->
  exists u, mapM py_int ids = Ok u /\ u <> [] /\ forall v, In v u -> v < r.
Proof.
  unfold next_cTn_id. destruct (mapM py_int ids) as [u|e]; simpl; [|discriminate].
  destruct u as [|x l]; [discriminate|]. intros H; inversion H; subst.
  exists (x :: l). split; auto. split; [discriminate|].
  destruct (max_from_spec x l) as [H1 [H2 _]].
  intros v [->|Hv]; [lia|specialize (H2 _ Hv); lia].
Qed.

(* ============================================================================== *)
(** * The slide-like part as a state machine *)

Definition caches_off (st : sstate) : Prop := Forall (fun c => c = None) (caches st).
Definition shape_inv (st : sstate) : Prop := caches_off st /\ NoDup (num_ids (shape_ids st)).
Definition turbo_on (op : sop) : bool := match op with SetTurbo _ true => true | _ => false end.
Definition is_add (op : sop) : bool := match op with AddMax _ | AddGap => true | _ => false end.

Lemma run_ops_cons st op r :
  fst (run_ops st (op :: r)) = fst (run_ops (fst (step st op)) r) /\
  snd (run_ops st (op :: r)) = snd (step st op) :: snd (run_ops (fst (step st op)) r).
Proof.
  cbn [run_ops]. destruct (step st op) as [st1 o]. cbn [fst snd].
  destruct (run_ops st1 r) as [st2 os]. auto.
Qed.

Lemma set_nth_Forall {A} (P : A -> Prop) n x l : Forall P l -> P x -> Forall P (set_nth n x l).
Proof.
  revert n; induction l as [|y l IH]; intros n Hl Hx; destruct n; simpl; auto;
    inversion Hl; subst; constructor; auto.
Qed.

Lemma caches_off_nth st h c : caches_off st -> nth_error (caches st) h = Some c -> c = None.
Proof.
  intros H Hn. apply nth_error_In in Hn. unfold caches_off in H. rewrite Forall_forall in H. auto.
Qed.

Lemma num_ids_numeral n : 0 < n -> num_ids [show_Z n] = [n] \/ num_ids [show_Z n] = [].
Proof.
  intros Hn. rewrite show_Z_pos by auto. simpl. rewrite py_isdecimal_dec_of_N.
  destruct (py_int (dec_of_N (Z.to_N n))) as [v|e] eqn:E; auto.
  apply py_int_dec_of_N in E. left. f_equal. lia.
Qed.

Lemma NoDup_snoc {A} (l : list A) x : NoDup l -> ~ In x l -> NoDup (l ++ [x]).
Proof.
  induction l as [|y l IH]; intros H Hn; simpl.
  - constructor; [intros []|constructor].
  - inversion H; subst. constructor.
    + rewrite in_app_iff. simpl. intros [Hi|[->|[]]]; auto. apply Hn; left; auto.
    + apply IH; auto. intros Hi; apply Hn; right; auto.
Qed.

Lemma push_shape_inv st n : shape_inv st -> 0 < n -> ~ In n (num_ids (all_ids st)) ->
  shape_inv (push_shape n st).
Proof.
  intros [Hc Hd] Hn Hf. split; [exact Hc|].
  unfold push_shape; cbn [shape_ids]. rewrite num_ids_app.
  assert (Hf' : ~ In n (num_ids (shape_ids st))).
  { intros Hi. apply Hf. unfold all_ids. rewrite num_ids_app, in_app_iff. auto. }
  destruct (num_ids_numeral n Hn) as [E|E]; rewrite E.
  - apply NoDup_snoc; auto.
  - rewrite app_nil_r; auto.
Qed.

(** nothing ever rewrites an existing id: both populations only grow at the end *)
Lemma step_frame st op :
  (exists n1, shape_ids (fst (step st op)) = shape_ids st ++ n1) /\
  (exists n2, other_ids (fst (step st op)) = other_ids st ++ n2).
Proof.
  assert (Hid : forall l : list str, exists n, l = l ++ n) by (intros l; exists []; rewrite app_nil_r; auto).
  destruct op as [h| |h b| |i]; cbn [step].
  - unfold alloc_via. destruct (nth_error (caches st) h) as [[c|]|]; cbn [fst];
      try (split; apply Hid).
    + unfold push_shape; cbn [fst shape_ids other_ids]. split; [eexists; reflexivity|apply Hid].
    + destruct (next_shape_id_max (all_ids st)); cbn [bind fst]; [|split; apply Hid].
      unfold push_shape; cbn [shape_ids other_ids]. split; [eexists; reflexivity|apply Hid].
  - destruct (next_shape_id_gap (all_ids st)); cbn [fst]; [|split; apply Hid].
    unfold push_shape; cbn [shape_ids other_ids]. split; [eexists; reflexivity|apply Hid].
  - destruct (nth_error (caches st) h); cbn [fst]; [|split; apply Hid].
    destruct b; [destruct (max_shape_id (all_ids st))|]; cbn [fst shape_ids other_ids]; split; apply Hid.
  - cbn [fst shape_ids other_ids]. split; apply Hid.
  - destruct (nth_error (shape_ids st) i); cbn [fst]; [|split; apply Hid].
    destruct (py_int s); cbn [fst]; [|split; apply Hid].
    destruct (_ && _); cbn [fst shape_ids other_ids]; [|split; apply Hid].
    split; [apply Hid|eexists; reflexivity].
Qed.

Lemma step_inv st op : shape_inv st -> turbo_on op = false ->
  shape_inv (fst (step st op)) /\
  (forall n, snd (step st op) = Ok n -> is_add op = true ->
     0 < n /\ ~ In n (num_ids (all_ids st)) /\ ~ In (show_Z n) (all_ids st) /\
     shape_ids (fst (step st op)) = shape_ids st ++ [show_Z n]).
Proof.
  intros Hinv Ht. pose proof Hinv as [Hc Hd].
  destruct op as [h| |h b| |i]; cbn [step is_add].
  - unfold alloc_via. destruct (nth_error (caches st) h) as [c|] eqn:En.
    + rewrite (caches_off_nth _ _ _ Hc En).
      destruct (next_shape_id_max (all_ids st)) as [n|e] eqn:E; cbn [bind fst snd].
      * destruct (shape_max_fresh _ _ E) as [H1 [H2 [H3 H4]]].
        split; [apply push_shape_inv; auto|].
        intros n' Hn' _. inversion Hn'; subst. auto.
      * split; auto. intros n' Hn'; discriminate.
    + cbn [fst snd]. split; auto. intros n' Hn'; discriminate.
  - destruct (shape_gap_fresh (all_ids st)) as [_ Hg].
    destruct (next_shape_id_gap (all_ids st)) as [n|e] eqn:E; cbn [fst snd].
    + destruct (Hg n eq_refl) as [H1 [H2 [H3 H4]]].
      split; [apply push_shape_inv; auto; lia|].
      intros n' Hn' _. inversion Hn'; subst. split; [lia|auto].
    + split; auto. intros n' Hn'; discriminate.
  - split; [|intros n _ Hf; discriminate].
    destruct (nth_error (caches st) h); cbn [fst]; auto.
    destruct b; [discriminate Ht|]. split; cbn [caches shape_ids]; auto.
    apply set_nth_Forall; auto.
  - split; [|intros n _ Hf; discriminate]. cbn [fst]. split; cbn [caches shape_ids]; auto.
    apply Forall_app; split; auto.
  - split; [|intros n _ Hf; discriminate].
    destruct (nth_error (shape_ids st) i); cbn [fst]; auto.
    destruct (py_int s); cbn [fst]; auto.
    destruct (_ && _); cbn [fst]; auto.
Qed.

Theorem shape_history ops : forall st,
  shape_inv st -> forallb (fun o => negb (turbo_on o)) ops = true ->
  shape_inv (fst (run_ops st ops)) /\
  (exists n1, shape_ids (fst (run_ops st ops)) = shape_ids st ++ n1) /\
  (exists n2, other_ids (fst (run_ops st ops)) = other_ids st ++ n2).
Proof.
  induction ops as [|op r IH]; intros st Hinv Hops.
  - cbn [run_ops fst]. split; auto. split; exists []; rewrite app_nil_r; auto.
  - cbn [forallb] in Hops. apply andb_true_iff in Hops as [Ho Hr]. apply negb_true_iff in Ho.
    destruct (run_ops_cons st op r) as [E _]. rewrite E.
    destruct (step_inv st op Hinv Ho) as [Hinv' _].
    destruct (IH _ Hinv' Hr) as [H1 [[n1 H2] [n2 H3]]].
    destruct (step_frame st op) as [[m1 F1] [m2 F2]].
    split; auto. split.
    + exists (m1 ++ n1). rewrite H2, F1, app_assoc. reflexivity.
    + exists (m2 ++ n2). rewrite H3, F2, app_assoc. reflexivity.
Qed.

(** the frame part alone needs no hypothesis (it also holds with turbo on) *)
Theorem shape_stable ops : forall st,
  (exists n1, shape_ids (fst (run_ops st ops)) = shape_ids st ++ n1) /\
  (exists n2, other_ids (fst (run_ops st ops)) = other_ids st ++ n2).
Proof.
  induction ops as [|op r IH]; intros st.
  - cbn [run_ops fst]. split; exists []; rewrite app_nil_r; auto.
  - destruct (run_ops_cons st op r) as [E _]. rewrite E.
    destruct (IH (fst (step st op))) as [[n1 H2] [n2 H3]].
    destruct (step_frame st op) as [[m1 F1] [m2 F2]]. split.
    + exists (m1 ++ n1). rewrite H2, F1, app_assoc. reflexivity.
    + exists (m2 ++ n2). rewrite H3, F2, app_assoc. reflexivity.
Qed.

(** with the turbo cache a group shape (first-gap allocator) and the next shape through
    the caching proxy get the same id *)
Definition turbo_witness_ops : list sop := [SetTurbo 0 true; AddGap; AddMax 0].
Definition fresh_slide : sstate := mkS [[49%N]] [] [None].

Theorem turbo_refuted :
  exists ops, shape_inv fresh_slide /\
    snd (run_ops fresh_slide ops) = [Ok 1; Ok 2; Ok 2] /\
    ~ NoDup (num_ids (shape_ids (fst (run_ops fresh_slide ops)))).
Proof.
  exists turbo_witness_ops. split; [|split].
  - split; [repeat constructor|]. vm_compute. repeat constructor; simpl; tauto.
  - vm_compute. reflexivity.
  - assert (E : num_ids (shape_ids (fst (run_ops fresh_slide turbo_witness_ops))) = [1; 2; 2])
      by (vm_compute; reflexivity).
    rewrite E. intros H. inversion H as [|? ? _ H2]; subst.
    inversion H2 as [|? ? H3 _]; subst. apply H3. left; reflexivity.
Qed.

(* ============================================================================== *)
(** * Slide ids *)

Lemma insertZ_perm x l : Permutation (insertZ x l) (x :: l).
Proof.
  induction l as [|y l IH]; simpl; auto.
  destruct (x <=? y); auto.
  eapply perm_trans; [apply perm_skip; exact IH|apply perm_swap].
Qed.

Lemma sortZ_perm l : Permutation (sortZ l) l.
Proof.
  induction l as [|x l IH]; simpl; auto.
  eapply perm_trans; [apply insertZ_perm|apply perm_skip; exact IH].
Qed.

Lemma insertZ_sorted x l : StronglySorted Z.le l -> StronglySorted Z.le (insertZ x l).
Proof.
  induction l as [|y l IH]; intros H; simpl.
  - constructor; constructor.
  - inversion H as [|? ? Hs Hf]; subst. destruct (x <=? y) eqn:E.
    + apply Z.leb_le in E. constructor; auto. constructor; auto.
      eapply Forall_impl; [|exact Hf]. intros a Ha; lia.
    + apply Z.leb_gt in E. constructor; auto.
      assert (Hp : Forall (Z.le y) (x :: l)) by (constructor; [lia|auto]).
      rewrite Forall_forall in *. intros a Ha. apply Hp.
      eapply Permutation_in; [apply insertZ_perm|exact Ha].
Qed.

Lemma sortZ_sorted l : StronglySorted Z.le (sortZ l).
Proof. induction l; simpl; [constructor|apply insertZ_sorted; auto]. Qed.

Lemma sorted_le_NoDup_lt l : StronglySorted Z.le l -> NoDup l -> StronglySorted Z.lt l.
Proof.
  induction l as [|x l IH]; intros Hs Hn; [constructor|].
  inversion Hs as [|? ? Hs' Hf]; inversion Hn as [|? ? Hx Hn']; subst.
  constructor; auto. rewrite Forall_forall in *. intros a Ha.
  specialize (Hf a Ha). assert (a <> x) by (intros ->; auto). lia.
Qed.

Lemma enum_first_neq_stop c l : enum_first_neq c l = Err StopIter <-> l = zseq c (length l).
Proof.
  revert c; induction l as [|u r IH]; intros c; simpl.
  - split; auto.
  - destruct (Z.eqb_spec c u) as [->|Hn].
    + rewrite IH. split; [intros H; f_equal; exact H|intros H; injection H; auto].
    + split; [discriminate|]. intros H; inversion H; congruence.
Qed.

Lemma enum_first_neq_err c l e : enum_first_neq c l = Err e -> e = StopIter.
Proof.
  revert c; induction l as [|u r IH]; intros c; simpl; [congruence|].
  destruct (c =? u); [apply IH|discriminate].
Qed.

Lemma enum_first_neq_ok l : forall c r, StronglySorted Z.lt l -> (forall x, In x l -> c <= x) ->
  enum_first_neq c l = Ok r ->
  c <= r /\ ~ In r l /\ (exists u, In u l /\ r < u) /\ (forall k, c <= k < r -> In k l).
Proof.
  induction l as [|u t IH]; intros c r Hs Hlb; simpl; [discriminate|].
  inversion Hs as [|? ? Hs' Hf]; subst. rewrite Forall_forall in Hf.
  destruct (Z.eqb_spec c u) as [->|Hn].
  - intros H. apply IH in H; auto.
    + destruct H as [H1 [H2 [[w [Hw1 Hw2]] H4]]]. split; [lia|]. split.
      * intros [->|Hi]; [lia|auto].
      * split; [exists w; auto|].
        intros k Hk. destruct (Z.eq_dec k u); [left; auto|right; apply H4; lia].
    + intros x Hx. specialize (Hf x Hx). lia.
  - intros H; inversion H; subst. pose proof (Hlb u (or_introl eq_refl)).
    split; [lia|]. split.
    + intros [->|Hi]; [congruence|]. specialize (Hf r Hi). lia.
    + split; [exists u; split; [left; auto|lia]|]. intros k Hk; lia.
Qed.

Definition valid_id (i : Z) : Prop := MIN_SLIDE_ID <= i <= MAX_SLIDE_ID.

Lemma slide_id_valid_iff i : slide_id_valid i = true <-> valid_id i.
Proof. unfold slide_id_valid, valid_id. rewrite andb_true_iff, !Z.leb_le. tauto. Qed.

Definition valid_used (used : list Z) : list Z := filter slide_id_valid used.

(** General form: only the in-range ids need to be distinct. *)
Theorem slide_id_Z_gen used : NoDup (valid_used used) ->
  match next_slide_id_Z used with
  | Ok r => valid_id r /\ ~ In r used /\
            (max_from (MIN_SLIDE_ID - 1) used < MAX_SLIDE_ID -> r = max_from (MIN_SLIDE_ID - 1) used + 1)
  | Err e => e = StopIter /\ MAX_SLIDE_ID <= max_from (MIN_SLIDE_ID - 1) used /\
             valid_used used <> [] /\
             sortZ (valid_used used) = zseq MIN_SLIDE_ID (length (valid_used used))
  end.
Proof.
  intros Hnd. unfold next_slide_id_Z. fold (valid_used used).
  destruct (max_from_spec (MIN_SLIDE_ID - 1) used) as [M1 [M2 M3]].
  set (M := max_from (MIN_SLIDE_ID - 1) used) in *.
  destruct (Z.leb_spec (M + 1) MAX_SLIDE_ID) as [Hle|Hgt].
  - unfold valid_id, MIN_SLIDE_ID, MAX_SLIDE_ID in *. split; [lia|]. split; [|auto].
    intros Hin. specialize (M2 _ Hin). lia.
  - assert (Hperm := sortZ_perm (valid_used used)).
    assert (Hsorted : StronglySorted Z.lt (sortZ (valid_used used))).
    { apply sorted_le_NoDup_lt; [apply sortZ_sorted|].
      eapply Permutation_NoDup; [apply Permutation_sym; exact Hperm|exact Hnd]. }
    assert (Hlb : forall x, In x (sortZ (valid_used used)) -> MIN_SLIDE_ID <= x).
    { intros x Hx. eapply Permutation_in in Hx; [|exact Hperm].
      unfold valid_used in Hx. apply filter_In in Hx as [_ Hx]. apply slide_id_valid_iff in Hx.
      unfold valid_id in Hx; lia. }
    destruct (sortZ (valid_used used)) as [|v0 vs] eqn:Es.
    + assert (Hempty : valid_used used = []).
      { apply Permutation_nil in Hperm; auto. }
      split; [unfold valid_id, MIN_SLIDE_ID, MAX_SLIDE_ID; lia|]. split; [|intros; lia].
      intros Hin. assert (Hv : In 256 (valid_used used)).
      { unfold valid_used. apply filter_In; split; auto. }
      rewrite Hempty in Hv; auto.
    + destruct (enum_first_neq MIN_SLIDE_ID (v0 :: vs)) as [r|e] eqn:Ee.
      * apply enum_first_neq_ok in Ee; auto.
        destruct Ee as [H1 [H2 [[w [Hw1 Hw2]] _]]].
        assert (Hwv : valid_id w).
        { eapply Permutation_in in Hw1; [|exact Hperm]. unfold valid_used in Hw1.
          apply filter_In in Hw1 as [_ Hw1]. apply slide_id_valid_iff; auto. }
        assert (Hrv : valid_id r) by (unfold valid_id in *; lia).
        split; auto. split; [|intros; lia].
        intros Hin. apply H2. eapply Permutation_in; [apply Permutation_sym; exact Hperm|].
        unfold valid_used. apply filter_In; split; auto. apply slide_id_valid_iff; auto.
      * pose proof (enum_first_neq_err _ _ _ Ee); subst.
        apply enum_first_neq_stop in Ee.
        split; auto. split; [lia|]. split.
        -- intros Hc. rewrite Hc in Hperm. apply Permutation_sym, Permutation_nil in Hperm. discriminate.
        -- rewrite Ee at 1. f_equal. rewrite <- Es.
           apply Permutation_length. apply sortZ_perm.
Qed.

Lemma filter_all {A} (f : A -> bool) l : (forall x, In x l -> f x = true) -> filter f l = l.
Proof.
  induction l as [|x l IH]; intros H; simpl; auto.
  rewrite (H x (or_introl eq_refl)). f_equal. apply IH. intros; apply H; right; auto.
Qed.

(** The property's own domain: distinct ids, all in 256..2147483647. *)
Theorem slide_id_Z used : NoDup used -> (forall i, In i used -> valid_id i) ->
  match next_slide_id_Z used with
  | Ok r => valid_id r /\ ~ In r used
  | Err e => e = StopIter /\ (forall k, valid_id k -> In k used)
  end.
Proof.
  intros Hnd Hv.
  assert (Hf : valid_used used = used).
  { apply filter_all. intros x Hx. apply slide_id_valid_iff; auto. }
  pose proof (slide_id_Z_gen used) as H. rewrite Hf in H. specialize (H Hnd).
  destruct (next_slide_id_Z used) as [r|e].
  - destruct H as [H1 [H2 _]]; auto.
  - destruct H as [H1 [H2 [H3 H4]]]. split; auto.
    destruct (max_from_spec (MIN_SLIDE_ID - 1) used) as [_ [_ M3]].
    assert (Hmax : In (max_from (MIN_SLIDE_ID - 1) used) used).
    { destruct M3 as [M3|M3]; auto. unfold MIN_SLIDE_ID, MAX_SLIDE_ID in *; lia. }
    pose proof (Hv _ Hmax) as Hmv.
    assert (HM : In MAX_SLIDE_ID (sortZ used)).
    { eapply Permutation_in; [apply Permutation_sym; apply sortZ_perm|].
      replace MAX_SLIDE_ID with (max_from (MIN_SLIDE_ID - 1) used); auto.
      unfold valid_id in Hmv; lia. }
    rewrite H4 in HM. apply zseq_In in HM.
    intros k Hk. eapply Permutation_in; [apply sortZ_perm|].
    rewrite H4. apply zseq_In. unfold valid_id in Hk. lia.
Qed.

(** an id above the upper bound makes the fall-back search run off its list *)
Theorem slide_id_oob_stop : next_slide_id_Z [256; 2147483648] = Err StopIter.
Proof. vm_compute. reflexivity. Qed.

(** duplicates among the pre-existing ids can make the fall-back return a used id *)
Theorem slide_id_dup_refuted :
  exists used r, (forall i, In i used -> valid_id i) /\ next_slide_id_Z used = Ok r /\ In r used.
Proof.
  exists [256; 256; 257; 2147483647], 257. split; [|split].
  - intros i Hi. unfold valid_id, MIN_SLIDE_ID, MAX_SLIDE_ID. simpl in Hi. lia.
  - vm_compute. reflexivity.
  - simpl; auto.
Qed.

(** ** over the attribute strings, and over histories of add_slide *)

Lemma size_small n : (n < 2 ^ 31)%N -> (N.size n < 4000)%N.
Proof.
  intros H. destruct (N.eq_dec n 0) as [->|Hn]; [simpl; lia|].
  rewrite N.size_log2 by auto.
  assert (N.log2 n < 31)%N by (apply N.log2_lt_pow2; lia). lia.
Qed.

Lemma py_int_show_valid r : valid_id r -> py_int (show_Z r) = Ok r.
Proof.
  unfold valid_id, MIN_SLIDE_ID, MAX_SLIDE_ID. intros H.
  rewrite show_Z_pos by lia. rewrite py_int_dec_of_N_small.
  - f_equal. lia.
  - apply size_small. change (2 ^ 31)%N with 2147483648%N. lia.
Qed.

Definition slides_good (ids : list str) : Prop :=
  exists vals, mapM py_int ids = Ok vals /\ NoDup vals /\ (forall i, In i vals -> valid_id i).

Theorem slide_add ids vals :
  mapM py_int ids = Ok vals -> NoDup vals -> (forall i, In i vals -> valid_id i) ->
  match add_sldId ids with
  | Ok ids' => exists r, next_slide_id ids = Ok r /\ ids' = ids ++ [show_Z r] /\ valid_id r /\
                         ~ In r vals /\ mapM py_int ids' = Ok (vals ++ [r])
  | Err e => e = StopIter /\ next_slide_id ids = Err StopIter /\ (forall k, valid_id k -> In k vals)
  end.
Proof.
  intros Hm Hnd Hv. unfold add_sldId, next_slide_id. rewrite Hm. cbn [bind].
  pose proof (slide_id_Z vals Hnd Hv) as H.
  destruct (next_slide_id_Z vals) as [r|e]; cbn [bind].
  - destruct H as [H1 H2]. rewrite (proj2 (slide_id_valid_iff r) H1).
    exists r. split; auto. split; auto. split; auto. split; auto.
    apply mapM_app; auto. simpl. rewrite py_int_show_valid by auto. reflexivity.
  - destruct H as [-> H]. auto.
Qed.

Lemma add_slides_S k ids :
  add_slides (S k) ids =
  match add_sldId ids with
  | Ok ids' => (fst (add_slides k ids'), next_slide_id ids :: snd (add_slides k ids'))
  | Err e => (fst (add_slides k ids), Err e :: snd (add_slides k ids))
  end.
Proof.
  cbn [add_slides]. destruct (add_sldId ids) as [ids'|e].
  - destruct (add_slides k ids'); reflexivity.
  - destruct (add_slides k ids); reflexivity.
Qed.

Theorem slide_history n : forall ids, slides_good ids ->
  slides_good (fst (add_slides n ids)) /\
  (exists new, fst (add_slides n ids) = ids ++ new) /\
  Forall (fun o => match o with Ok r => valid_id r | Err e => e = StopIter end)
         (snd (add_slides n ids)).
Proof.
  induction n as [|k IH]; intros ids Hg.
  - cbn [add_slides fst snd]. split; auto. split; [exists []; rewrite app_nil_r; auto|constructor].
  - rewrite add_slides_S. destruct Hg as [vals [Hm [Hnd Hv]]].
    pose proof (slide_add ids vals Hm Hnd Hv) as Ha.
    destruct (add_sldId ids) as [ids'|e]; cbn [fst snd].
    + destruct Ha as [r [Hr [-> [Hrv [Hrn Hm']]]]].
      assert (Hg' : slides_good (ids ++ [show_Z r])).
      { exists (vals ++ [r]). split; auto. split; [apply NoDup_snoc; auto|].
        intros i Hi. apply in_app_iff in Hi as [Hi|[<-|[]]]; auto. }
      destruct (IH _ Hg') as [H1 [[new H2] H3]]. split; auto. split.
      * exists ([show_Z r] ++ new). rewrite H2, app_assoc. reflexivity.
      * constructor; auto. rewrite Hr. auto.
    + destruct Ha as [-> [_ _]].
      assert (Hg' : slides_good ids) by (exists vals; auto).
      destruct (IH _ Hg') as [H1 [H2 H3]]. split; auto.
Qed.

(* ============================================================================== *)
(** * Relationship ids *)

Lemma rId_name_inj a b : rId_name a = rId_name b -> a = b.
Proof. unfold rId_name. intros H. apply app_inv_head in H. apply dec_of_N_inj; auto. Qed.

Lemma NoDup_map_inj {A B} (f : A -> B) l :
  (forall a b, f a = f b -> a = b) -> NoDup l -> NoDup (map f l).
Proof.
  intros Hinj. induction l as [|x l IH]; intros H; simpl; [constructor|].
  inversion H; subst. constructor; auto.
  intros Hin. apply in_map_iff in Hin as [y [Hy Hin]]. apply Hinj in Hy; subst; auto.
Qed.

(** pigeonhole: n distinct candidate names cannot all be among fewer than n keys *)
Lemma pigeon (f : N -> str) (keys : list str) n :
  (forall a b, f a = f b -> a = b) ->
  (forall j, (1 <= j <= N.of_nat n)%N -> In (f j) keys) -> (n <= length keys)%nat.
Proof.
  intros Hinj Hall.
  set (l := map (fun i => f (N.of_nat i)) (seq 1 n)).
  assert (Hnd : NoDup l).
  { apply NoDup_map_inj; [|apply seq_NoDup].
    intros a b Hab. apply Hinj in Hab. lia. }
  assert (Hincl : incl l keys).
  { intros x Hx. apply in_map_iff in Hx as [i [<- Hi]]. apply in_seq in Hi. apply Hall. lia. }
  pose proof (NoDup_incl_length Hnd Hincl) as H. unfold l in H.
  rewrite map_length, seq_length in H. exact H.
Qed.

Lemma rid_down_spec n keys :
  match rid_down n keys with
  | Ok r => ~ In r keys /\ exists k, (1 <= k <= N.of_nat n)%N /\ r = rId_name k /\
                                     forall j, (k < j <= N.of_nat n)%N -> In (rId_name j) keys
  | Err e => e = OtherErr /\ forall j, (1 <= j <= N.of_nat n)%N -> In (rId_name j) keys
  end.
Proof.
  induction n as [|k IH].
  - simpl. split; auto. intros j Hj; lia.
  - cbn [rid_down]. destruct (mem_str (rId_name (N.of_nat (S k))) keys) eqn:E.
    + apply mem_str_In in E. destruct (rid_down k keys) as [r|e].
      * destruct IH as [H1 [m [H2 [H3 H4]]]]. split; auto. exists m. split; [lia|]. split; auto.
        intros j Hj. destruct (N.eq_dec j (N.of_nat (S k))) as [->|Hne]; auto. apply H4; lia.
      * destruct IH as [H1 H2]. split; auto.
        intros j Hj. destruct (N.eq_dec j (N.of_nat (S k))) as [->|Hne]; auto. apply H2; lia.
    + split.
      * intros Hin. apply mem_str_In in Hin. congruence.
      * exists (N.of_nat (S k)). split; [lia|]. split; auto. intros j Hj; lia.
Qed.

Theorem rid_fresh keys :
  exists r, next_rId keys = Ok r /\ ~ In r keys /\
    exists k, (1 <= k <= N.of_nat (S (length keys)))%N /\ r = rId_name k /\
              forall j, (k < j <= N.of_nat (S (length keys)))%N -> In (rId_name j) keys.
Proof.
  unfold next_rId. pose proof (rid_down_spec (S (length keys)) keys) as H.
  destruct (rid_down (S (length keys)) keys) as [r|e].
  - exists r. destruct H as [H1 H2]. auto.
  - exfalso. destruct H as [_ H].
    pose proof (pigeon rId_name keys (S (length keys)) rId_name_inj H). lia.
Qed.

Lemma filter_neq_In a x l :
  In x (filter (fun y => negb (str_eqb a y)) l) <-> In x l /\ x <> a.
Proof.
  rewrite filter_In. split; intros [H1 H2]; split; auto.
  - intros ->. rewrite str_eqb_refl in H2. discriminate.
  - apply negb_true_iff. destruct (str_eqb_spec a x); congruence.
Qed.

Lemma dedup_In x l : In x (dedup l) <-> In x l.
Proof.
  induction l as [|a l IH]; simpl; [tauto|].
  rewrite filter_neq_In, IH. split.
  - intros [->|[H _]]; auto.
  - intros [->|H]; auto. destruct (str_eqb_spec a x); [left; auto|right; split; congruence].
Qed.

Lemma NoDup_filter {A} (f : A -> bool) l : NoDup l -> NoDup (filter f l).
Proof.
  induction l as [|x l IH]; intros H; simpl; [constructor|].
  inversion H; subst. destruct (f x); auto. constructor; auto.
  intros Hin. apply filter_In in Hin as [Hin _]. auto.
Qed.

Lemma dedup_NoDup l : NoDup (dedup l).
Proof.
  induction l as [|a l IH]; simpl; constructor.
  - intros H. apply filter_neq_In in H as [_ H]. congruence.
  - apply NoDup_filter; auto.
Qed.

(** what the loader keeps: the distinct Id values; the next rId is new for the XML too *)
Theorem rid_fresh_xml xml_ids :
  NoDup (load_keys xml_ids) /\
  exists r, next_rId (load_keys xml_ids) = Ok r /\ ~ In r xml_ids.
Proof.
  split; [apply dedup_NoDup|].
  destruct (rid_fresh (load_keys xml_ids)) as [r [H1 [H2 _]]].
  exists r. split; auto. intros Hin. apply H2. apply dedup_In; auto.
Qed.

(** ** relationship collection over histories *)
Definition rel_inv (st : rstate) : Prop := NoDup (rkeys st) /\ incl (refs st) (rkeys st).

Lemma find_target_In t l k : find_target t l = Some k -> In (k, t) l.
Proof.
  induction l as [|[k' t'] l IH]; simpl; [discriminate|].
  destruct (str_eqb_spec t t') as [->|Hn].
  - intros H; inversion H; subst; auto.
  - intros H; right; auto.
Qed.

Lemma count_str_zero x l : count_str x l = O <-> ~ In x l.
Proof.
  unfold count_str. induction l as [|y l IH]; simpl; [tauto|].
  destruct (str_eqb_spec x y) as [->|Hn]; simpl.
  - split; [discriminate|]. intros H; exfalso; apply H; auto.
  - rewrite IH. split; intros H; [intros [Hc|Hc]; [congruence|auto]|intros Hc; apply H; auto].
Qed.

Lemma count_remove_nth x l : forall i,
  nth_error l i = Some x -> count_str x l = S (count_str x (remove_nth i l)).
Proof.
  unfold count_str. induction l as [|y l IH]; intros i H; destruct i; simpl in *; try discriminate.
  - inversion H; subst. rewrite str_eqb_refl. reflexivity.
  - destruct (str_eqb x y); simpl; rewrite (IH _ H); reflexivity.
Qed.

Lemma remove_nth_incl {A} (l : list A) i : incl (remove_nth i l) l.
Proof.
  revert i; induction l as [|y l IH]; intros i x Hx; destruct i; simpl in *; auto.
  destruct Hx as [->|Hx]; auto. right. eapply IH; eauto.
Qed.

Lemma map_fst_filter_NoDup {A B} (f : A * B -> bool) l :
  NoDup (map fst l) -> NoDup (map fst (filter f l)).
Proof.
  induction l as [|p l IH]; intros H; simpl; [constructor|].
  simpl in H. inversion H; subst. destruct (f p); auto. simpl. constructor; auto.
  intros Hin. apply in_map_iff in Hin as [q [Hq Hin]]. apply filter_In in Hin as [Hin _].
  apply H2. rewrite <- Hq. apply in_map; auto.
Qed.

(** One step from any consistent collection: consistency is kept; a Relate either reuses
    the relationship of the same target or adds one whose rId is neither a key nor
    referenced anywhere in the part; a DropRef removes a relationship only when the
    reference being deleted was its last one, and touches no other entry. *)
Theorem rid_step st op : rel_inv st ->
  rel_inv (fst (rstep st op)) /\
  match op with
  | Relate t =>
      exists k, snd (rstep st op) = Ok k /\ refs (fst (rstep st op)) = refs st ++ [k] /\
        ((In (k, t) (rels st) /\ rels (fst (rstep st op)) = rels st) \/
         (~ In k (rkeys st) /\ ~ In k (refs st) /\ rels (fst (rstep st op)) = rels st ++ [(k, t)]))
  | DropRef i =>
      forall k t, In (k, t) (rels st) ->
        In (k, t) (rels (fst (rstep st op))) \/
        (nth_error (refs st) i = Some k /\ ~ In k (refs (fst (rstep st op))))
  end.
Proof.
  intros [Hnd Hincl]. destruct op as [t|i]; cbn [rstep].
  - destruct (find_target t (rels st)) as [k|] eqn:Ef.
    + cbn [fst snd rels refs]. apply find_target_In in Ef. split.
      * split; auto. intros x Hx. apply in_app_iff in Hx as [Hx|[<-|[]]]; auto.
        unfold rkeys. apply in_map_iff. exists (k, t); auto.
      * exists k. split; auto.
    + destruct (rid_fresh (rkeys st)) as [k [Hk [Hf _]]]. rewrite Hk. cbn [fst snd rels refs].
      split.
      * split.
        -- unfold rkeys; cbn [rels]. rewrite map_app. simpl. apply NoDup_snoc; auto.
        -- unfold rkeys; cbn [rels]. rewrite map_app. simpl.
           intros x Hx. apply in_app_iff. apply in_app_iff in Hx as [Hx|[<-|[]]]; [left; auto|right; left; auto].
      * exists k. split; auto. split; auto. right. split; auto.
  - destruct (nth_error (refs st) i) as [k|] eqn:En; cbn [fst]; [|split; [split; auto|auto]].
    destruct (Nat.ltb_spec (count_str k (refs st)) 2) as [Hlt|Hge].
    + destruct (mem_str k (rkeys st)) eqn:Em; cbn [fst rels refs]; [|split; [split; auto|auto]].
      pose proof (count_remove_nth k (refs st) i En) as Hc.
      assert (Hnone : ~ In k (remove_nth i (refs st))) by (apply count_str_zero; lia).
      split.
      * split.
        -- unfold rkeys; cbn [rels]. apply map_fst_filter_NoDup; auto.
        -- unfold rkeys; cbn [rels refs]. intros x Hx.
           assert (x <> k) by (intros ->; auto).
           apply remove_nth_incl in Hx. apply Hincl in Hx. unfold rkeys in Hx.
           apply in_map_iff in Hx as [[k' t'] [Hk' Hin]]. simpl in Hk'; subst.
           apply in_map_iff. exists (x, t'). split; auto. apply filter_In; split; auto.
           simpl. apply negb_true_iff. destruct (str_eqb_spec k x); congruence.
      * intros k' t' Hin. destruct (str_eqb_spec k k') as [->|Hne].
        -- right; auto.
        -- left. apply filter_In; split; auto. simpl. apply negb_true_iff.
           destruct (str_eqb_spec k k'); congruence.
    + cbn [fst rels refs]. split; [|auto]. split; auto.
      intros x Hx. apply remove_nth_incl in Hx. auto.
Qed.

Lemma rrun_cons st op r :
  fst (rrun st (op :: r)) = fst (rrun (fst (rstep st op)) r) /\
  snd (rrun st (op :: r)) = snd (rstep st op) :: snd (rrun (fst (rstep st op)) r).
Proof.
  cbn [rrun]. destruct (rstep st op) as [st1 o]. cbn [fst snd].
  destruct (rrun st1 r) as [st2 os]. auto.
Qed.

Theorem rid_history ops : forall st, rel_inv st -> rel_inv (fst (rrun st ops)).
Proof.
  induction ops as [|op r IH]; intros st H; [exact H|].
  destruct (rrun_cons st op r) as [E _]. rewrite E. apply IH.
  apply (rid_step st op H).
Qed.

(* ============================================================================== *)
(** * Part names *)

Lemma tmpl_apply_inj pre post a b : tmpl_apply pre post a = tmpl_apply pre post b -> a = b.
Proof.
  unfold tmpl_apply. intros H. apply app_inv_head in H. apply app_inv_tail in H.
  apply dec_of_N_inj; auto.
Qed.

Lemma find2_app a b post : forall pre i,
  exists k, find2 a b (pre ++ a :: b :: post) i = Some k /\ (i <= k <= i + length pre)%nat.
Proof.
  induction pre as [|x pre IH]; intros i.
  - simpl. rewrite !N.eqb_refl. simpl. exists i. split; auto. lia.
  - destruct (IH (S i)) as [k [Hk Hb]].
    change ((x :: pre) ++ a :: b :: post) with (x :: (pre ++ a :: b :: post)).
    destruct (pre ++ a :: b :: post) as [|y r] eqn:E.
    + destruct pre; discriminate.
    + cbn [find2]. destruct (N.eqb x a && N.eqb y b).
      * exists i. split; auto. simpl; lia.
      * exists k. split; auto. simpl; lia.
Qed.

Lemma starts_with_firstn k (s rest : str) : starts_with (firstn k s) (s ++ rest) = true.
Proof.
  revert k; induction s as [|x s IH]; intros k; destruct k; simpl; auto.
  rewrite N.eqb_refl. simpl. apply IH.
Qed.

Lemma dec_42 : dec_of_N 42 = s_42.
Proof. vm_compute. reflexivity. Qed.

Lemma tmpl_prefix_starts pre post n :
  starts_with (tmpl_prefix pre post) (tmpl_apply pre post n) = true.
Proof.
  unfold tmpl_prefix, tmpl_apply. rewrite dec_42. unfold s_42.
  change ([52%N; 50%N] ++ post) with (52%N :: 50%N :: post).
  destruct (find2_app 52%N 50%N post pre O) as [k [Hk Hb]]. rewrite Hk.
  rewrite firstn_app. replace (k - length pre)%nat with O by lia.
  rewrite firstn_O, app_nil_r. apply starts_with_firstn.
Qed.

Lemma pn_down_spec n pre post keys :
  match pn_down n pre post keys with
  | Ok r => ~ In r keys /\ exists k, (1 <= k <= N.of_nat n)%N /\ r = tmpl_apply pre post k
  | Err e => (e = OtherErr /\ forall j, (1 <= j <= N.of_nat n)%N -> In (tmpl_apply pre post j) keys)
             \/ ((e = ValueErr \/ e = IndexErr) /\ forall r, pre <> c_slash :: r)
  end.
Proof.
  induction n as [|k IH].
  - simpl. left. split; auto. intros j Hj; lia.
  - cbn [pn_down]. destruct (mem_str (tmpl_apply pre post (N.of_nat (S k))) keys) eqn:E.
    + apply mem_str_In in E. destruct (pn_down k pre post keys) as [r|e].
      * destruct IH as [H1 [m [H2 H3]]]. split; auto. exists m. split; [lia|auto].
      * destruct IH as [[H1 H2]|H]; [left|right; auto]. split; auto.
        intros j Hj. destruct (N.eq_dec j (N.of_nat (S k))) as [->|Hne]; auto. apply H2; lia.
    + remember (tmpl_apply pre post (N.of_nat (S k))) as cand eqn:Ec.
      unfold packuri_new. destruct cand as [|d r].
      * right. split; auto. intros r Hr. subst pre. unfold tmpl_apply in Ec. discriminate.
      * destruct (is_slash d) eqn:Ed.
        -- split.
           ++ intros Hin. apply mem_str_In in Hin. congruence.
           ++ exists (N.of_nat (S k)). split; [lia|auto].
        -- right. split; auto. intros r' Hr. subst pre. unfold tmpl_apply in Ec.
           change ((c_slash :: r') ++ dec_of_N (N.of_nat (S k)) ++ post)
             with (c_slash :: (r' ++ dec_of_N (N.of_nat (S k)) ++ post)) in Ec.
           inversion Ec; subst d. unfold is_slash in Ed. rewrite N.eqb_refl in Ed. discriminate.
Qed.

(** next_partname: the name returned is not the name of any part of the package (not
    only of those sharing the prefix); the final raise is unreachable; the only failure
    is PackURI refusing a template that does not begin with a slash. *)
Theorem partname_fresh pre post names :
  match next_partname pre post names with
  | Ok r => ~ In r names /\ exists k, (1 <= k)%N /\ r = tmpl_apply pre post k
  | Err e => (e = ValueErr \/ e = IndexErr) /\ forall r, pre <> c_slash :: r
  end.
Proof.
  unfold next_partname.
  set (keys := dedup (filter (starts_with (tmpl_prefix pre post)) names)).
  pose proof (pn_down_spec (S (length keys)) pre post keys) as H.
  destruct (pn_down (S (length keys)) pre post keys) as [r|e].
  - destruct H as [H1 [k [H2 H3]]]. split; [|exists k; split; [lia|auto]].
    intros Hin. apply H1. unfold keys. apply dedup_In. apply filter_In. split; auto.
    subst r. apply tmpl_prefix_starts.
  - destruct H as [[_ H]|H]; auto. exfalso.
    pose proof (pigeon (tmpl_apply pre post) keys (S (length keys)) (tmpl_apply_inj pre post) H). lia.
Qed.

Lemma pn_down_largest pre post keys : forall n r, pn_down n pre post keys = Ok r ->
  exists k, (1 <= k <= N.of_nat n)%N /\ r = tmpl_apply pre post k /\
    forall j, (k < j <= N.of_nat n)%N -> In (tmpl_apply pre post j) keys.
Proof.
  induction n as [|m IH]; intros r H; [discriminate|].
  cbn [pn_down] in H. destruct (mem_str (tmpl_apply pre post (N.of_nat (S m))) keys) eqn:E.
  - apply mem_str_In in E. destruct (IH r H) as [k [Hk [Hr Hj]]]. exists k. split; [lia|]. split; auto.
    intros j Hjr. destruct (N.eq_dec j (N.of_nat (S m))) as [->|Hne]; auto. apply Hj. lia.
  - exists (N.of_nat (S m)). split; [lia|]. split; [|intros j Hj; lia].
    unfold packuri_new in H. destruct (tmpl_apply pre post (N.of_nat (S m))) as [|d t]; [discriminate|].
    destruct (is_slash d); [congruence|discriminate].
Qed.

(** which one: the search starts one above the number of distinct part names that share the
    prefix of the template and goes down; the answer is the first free candidate it meets *)
Theorem partname_largest pre post names r :
  next_partname pre post names = Ok r ->
  exists k, (1 <= k <= N.of_nat (S (length (dedup (filter (starts_with (tmpl_prefix pre post)) names)))))%N /\
    r = tmpl_apply pre post k /\
    forall j, (k < j <= N.of_nat (S (length (dedup (filter (starts_with (tmpl_prefix pre post)) names)))))%N ->
              In (tmpl_apply pre post j) names.
Proof.
  unfold next_partname. intros H. apply pn_down_largest in H as [k [Hk [Hr Hj]]].
  exists k. split; auto. split; auto. intros j Hjr. specialize (Hj j Hjr).
  apply (proj1 (dedup_In _ _)) in Hj. apply filter_In in Hj. tauto.
Qed.

Lemma partname_ok pre' post names :
  exists r, next_partname (c_slash :: pre') post names = Ok r.
Proof.
  pose proof (partname_fresh (c_slash :: pre') post names) as H.
  destruct (next_partname (c_slash :: pre') post names) as [r|e]; eauto.
  destruct H as [_ H]. exfalso. eapply H; reflexivity.
Qed.

(** ** image / media indices *)

Lemma first_below_fresh l : forall i, StronglySorted Z.le l ->
  i <= first_below i l /\ ~ In (first_below i l) l.
Proof.
  induction l as [|x r IH]; intros i Hs; simpl.
  - split; [lia|auto].
  - inversion Hs as [|? ? Hs' Hf]; subst. rewrite Forall_forall in Hf.
    destruct (Z.ltb_spec i x) as [Hlt|Hge].
    + split; [lia|]. intros [->|Hin]; [lia|]. specialize (Hf _ Hin). lia.
    + destruct (IH (i + 1) Hs') as [H1 H2]. split; [lia|].
      intros [->|Hin]; [lia|auto].
Qed.

Lemma first_below_first_free l : forall i, StronglySorted Z.lt l -> (forall x, In x l -> i <= x) ->
  forall k, i <= k < first_below i l -> In k l.
Proof.
  induction l as [|x r IH]; intros i Hs Hlb k Hk; simpl in *.
  - lia.
  - inversion Hs as [|? ? Hs' Hf]; subst. rewrite Forall_forall in Hf.
    destruct (Z.ltb_spec i x) as [Hlt|Hge]; [lia|].
    pose proof (Hlb x (or_introl eq_refl)). assert (x = i) by lia. subst x.
    destruct (Z.eq_dec k i); [left; auto|right].
    apply (IH (i + 1)); auto; [|lia]. intros y Hy. specialize (Hf _ Hy). lia.
Qed.

Lemma opts_some_In {A} (x : A) l : In x (opts_some l) <-> In (Some x) l.
Proof.
  induction l as [|[y|] l IH]; simpl; [tauto| |].
  - rewrite IH. split; intros [H|H]; auto; [left; congruence|inversion H; auto].
  - rewrite IH. split; [auto|intros [H|H]; [discriminate|auto]].
Qed.

Theorem image_idx_fresh names :
  1 <= next_image_idx names /\ ~ In (next_image_idx names) (image_idxs names).
Proof.
  unfold next_image_idx.
  destruct (first_below_fresh (sortZ (image_idxs names)) 1 (sortZ_sorted _)) as [H1 H2].
  split; auto. intros Hin. apply H2.
  eapply Permutation_in; [apply Permutation_sym; apply sortZ_perm|exact Hin].
Qed.

Theorem image_idx_first_free names :
  NoDup (image_idxs names) -> (forall x, In x (image_idxs names) -> 1 <= x) ->
  forall k, 1 <= k < next_image_idx names -> In k (image_idxs names).
Proof.
  intros Hnd Hlb k Hk. unfold next_image_idx in Hk.
  eapply Permutation_in; [apply sortZ_perm|].
  apply (first_below_first_free (sortZ (image_idxs names)) 1); auto.
  - apply sorted_le_NoDup_lt; [apply sortZ_sorted|].
    eapply Permutation_NoDup; [apply Permutation_sym; apply sortZ_perm|auto].
  - intros x Hx. apply Hlb. eapply Permutation_in; [apply sortZ_perm|auto].
Qed.

Definition s_ppt : str := [112; 112; 116]%N.
Definition s_media : str := [109; 101; 100; 105; 97]%N.
Definition s_image : str := [105; 109; 97; 103; 101]%N.

Lemma digits_no_dot s : forallb is_digit s = true -> no_dot s = true.
Proof.
  unfold no_dot. intros H. apply forallb_true_iff. apply forallb_true_iff in H.
  eapply Forall_impl; [|exact H]. intros c Hc. apply is_digit_range in Hc.
  unfold is_dot, c_dot. apply negb_true_iff. apply N.eqb_neq. lia.
Qed.

Lemma media_name_idx (stem : str) k e :
  stem <> [] -> forallb is_alpha_ascii stem = true -> no_dot stem = true ->
  no_dot e = true -> forallb not_slash e = true ->
  idx (c_slash :: s_ppt ++ c_slash :: s_media ++ c_slash :: stem ++ dec_of_N k ++ c_dot :: e) = Some k.
Proof.
  intros Hs1 Hs2 Hs3 He1 He2.
  pose proof (idx_some [s_ppt; s_media] stem (dec_of_N k) [] e) as H.
  rewrite dec_value_dec_of_N in H.
  assert (Hr : render ([s_ppt; s_media] ++ [stem ++ dec_of_N k ++ [] ++ c_dot :: e])
               = c_slash :: s_ppt ++ c_slash :: s_media ++ c_slash :: stem ++ dec_of_N k ++ c_dot :: e).
  { unfold render. cbn [app join_with s_ppt s_media s_slash]. reflexivity. }
  rewrite Hr in H. apply H; auto.
  - repeat constructor.
  - apply dec_of_N_nonnil.
  - apply dec_of_N_digits.
  - rewrite app_nil_r. unfold no_dot in *. rewrite forallb_app, Hs3. simpl.
    apply (digits_no_dot _ (dec_of_N_digits k)).
Qed.

(** the new image name is not the name of any existing part, whatever the existing
    names look like (extension without slash or dot, as PIL-derived extensions are) *)
Theorem image_name_fresh ext names r :
  no_dot ext = true -> forallb not_slash ext = true ->
  next_image_partname ext names = Ok r -> ~ In r names.
Proof.
  intros He1 He2. unfold next_image_partname.
  destruct (image_idx_fresh names) as [Hpos Hfresh].
  set (i := next_image_idx names) in *.
  assert (Es : s_img_prefix ++ show_Z i ++ [c_dot] ++ ext
               = c_slash :: s_ppt ++ c_slash :: s_media ++ c_slash :: s_image ++ dec_of_N (Z.to_N i) ++ c_dot :: ext).
  { rewrite show_Z_pos by lia. reflexivity. }
  rewrite Es. unfold packuri_new. simpl app. unfold is_slash, c_slash. rewrite N.eqb_refl.
  intros H; inversion H; subst r. clear H. intros Hin. apply Hfresh.
  unfold image_idxs. apply in_map_iff. exists (Z.to_N i). split; [lia|].
  apply opts_some_In. apply in_map_iff.
  eexists. split; [|apply filter_In; split; [exact Hin|reflexivity]].
  change (idx (c_slash :: s_ppt ++ c_slash :: s_media ++ c_slash :: s_image ++ dec_of_N (Z.to_N i) ++ c_dot :: ext)
          = Some (Z.to_N i)).
  apply media_name_idx; auto; try reflexivity. discriminate.
Qed.

Theorem media_idx_spec names :
  match next_media_idx names with
  | Ok i => 1 <= i /\
            ~ In i (map Z.of_N (opts_some (map idx (filter (starts_with s_med_prefix) names))))
  | Err e => e = TypeErr /\ exists n, In n names /\ starts_with s_med_prefix n = true /\ idx n = None
  end.
Proof.
  unfold next_media_idx.
  set (l := map idx (filter (starts_with s_med_prefix) names)).
  destruct (forallb (fun o => match o with Some _ => true | None => false end) l) eqn:E.
  - destruct (first_below_fresh (sortZ (map Z.of_N (opts_some l))) 1 (sortZ_sorted _)) as [H1 H2].
    split; auto. intros Hin. apply H2.
    eapply Permutation_in; [apply Permutation_sym; apply sortZ_perm|exact Hin].
  - split; auto.
    assert (Hex : exists o, In o l /\ o = None).
    { clear -E. induction l as [|[x|] l IH]; simpl in E; [discriminate| |].
      - destruct (IH E) as [o [H1 H2]]. exists o; split; [right|]; auto.
      - exists None; split; [left|]; auto. }
    destruct Hex as [o [Hin ->]]. unfold l in Hin. apply in_map_iff in Hin as [n [Hn Hin]].
    apply filter_In in Hin as [H1 H2]. exists n; auto.
Qed.

Definition s_media_stem : str := [109; 101; 100; 105; 97]%N.

Theorem media_name_fresh ext names r :
  no_dot ext = true -> forallb not_slash ext = true ->
  next_media_partname ext names = Ok r -> ~ In r names.
Proof.
  intros He1 He2. unfold next_media_partname.
  pose proof (media_idx_spec names) as Hs.
  destruct (next_media_idx names) as [i|e]; cbn [bind]; [|discriminate].
  destruct Hs as [Hpos Hfresh].
  assert (Es : s_med_prefix ++ show_Z i ++ [c_dot] ++ ext
               = c_slash :: s_ppt ++ c_slash :: s_media ++ c_slash :: s_media_stem ++ dec_of_N (Z.to_N i) ++ c_dot :: ext).
  { rewrite show_Z_pos by lia. reflexivity. }
  rewrite Es. unfold packuri_new. simpl app. unfold is_slash, c_slash. rewrite N.eqb_refl.
  intros H; inversion H; subst r. clear H. intros Hin. apply Hfresh.
  apply in_map_iff. exists (Z.to_N i). split; [lia|].
  apply opts_some_In. apply in_map_iff.
  eexists. split; [|apply filter_In; split; [exact Hin|reflexivity]].
  change (idx (c_slash :: s_ppt ++ c_slash :: s_media ++ c_slash :: s_media_stem ++ dec_of_N (Z.to_N i) ++ c_dot :: ext)
          = Some (Z.to_N i)).
  apply media_name_idx; auto; try reflexivity. discriminate.
Qed.

(* ============================================================================== *)
(** * rename_slide_parts *)

Lemma set_nth_length {A} (l : list A) : forall n x, length (set_nth n x l) = length l.
Proof. induction l as [|y l IH]; intros n x; destruct n; simpl; auto. Qed.

Lemma set_nth_same {A} (l : list A) : forall n x, (n < length l)%nat -> nth_error (set_nth n x l) n = Some x.
Proof.
  induction l as [|y l IH]; intros n x H; destruct n; simpl in *; try lia; auto.
  apply IH; lia.
Qed.

Lemma set_nth_other {A} (l : list A) : forall n x q, n <> q -> nth_error (set_nth n x l) q = nth_error l q.
Proof.
  induction l as [|y l IH]; intros n x q H; destruct n, q; simpl; auto; try congruence.
Qed.

Lemma slide_name_inj a b : slide_name a = slide_name b -> a = b.
Proof. apply tmpl_apply_inj. Qed.

Lemma Forall2_len {A B} (R : A -> B -> Prop) l1 l2 : Forall2 R l1 l2 -> length l1 = length l2.
Proof. induction 1; simpl; auto. Qed.

(** [targets]: the part index each listed rId resolves to *)
Definition resolves (prels : list (str * nat)) (rIds : list str) (targets : list nat) : Prop :=
  Forall2 (fun r p => lookup_rel r prels = Some p) rIds targets.

Lemma rename_from_spec prels : forall rIds targets i names,
  resolves prels rIds targets -> NoDup targets -> (forall p, In p targets -> (p < length names)%nat) ->
  exists names', rename_from i prels rIds names = Ok names' /\
    length names' = length names /\
    (forall j p, nth_error targets j = Some p -> nth_error names' p = Some (slide_name (i + N.of_nat j)%N)) /\
    (forall q, ~ In q targets -> nth_error names' q = nth_error names q).
Proof.
  induction rIds as [|r rs IH]; intros targets i names Hres Hnd Hrange.
  - inversion Hres; subst. exists names. simpl. split; auto. split; auto. split; auto.
    intros j p Hj. destruct j; discriminate.
  - inversion Hres as [|? p ? ts Hr Hrest]; subst. inversion Hnd as [|? ? Hp Hnd']; subst.
    cbn [rename_from]. rewrite Hr.
    destruct (IH ts (i + 1)%N (set_nth p (slide_name i) names) Hrest Hnd') as [names' [H1 [H2 [H3 H4]]]].
    { intros q Hq. rewrite set_nth_length. apply Hrange; right; auto. }
    exists names'. split; auto. split; [rewrite H2; apply set_nth_length|]. split.
    + intros j q Hj. destruct j as [|j'].
      * simpl in Hj. inversion Hj; subst q. rewrite (H4 p Hp).
        rewrite set_nth_same by (apply Hrange; left; auto). f_equal. f_equal. lia.
      * simpl in Hj. rewrite (H3 j' q Hj). f_equal. f_equal. lia.
    + intros q Hq. rewrite H4 by (intros Hc; apply Hq; right; auto).
      apply set_nth_other. intros ->. apply Hq; left; auto.
Qed.

Lemma rename_from_keyerr prels : forall rIds i names,
  (exists r, In r rIds /\ lookup_rel r prels = None) -> rename_from i prels rIds names = Err KeyErr.
Proof.
  induction rIds as [|r rs IH]; intros i names [x [Hin Hx]]; [destruct Hin|].
  cbn [rename_from]. destruct (lookup_rel r prels) as [p|] eqn:E; auto.
  apply IH. destruct Hin as [->|Hin]; [congruence|eauto].
Qed.

(** After prs.slides: the listed slide parts are slide1..n in presentation order, pairwise
    distinct, every other part keeps its name. *)
Theorem rename_listed prels rIds targets names :
  resolves prels rIds targets -> NoDup targets -> (forall p, In p targets -> (p < length names)%nat) ->
  exists names', rename_slide_parts prels rIds names = Ok names' /\
    length names' = length names /\
    (forall j p, nth_error targets j = Some p ->
                 nth_error names' p = Some (slide_name (N.of_nat j + 1)%N)) /\
    (forall q, ~ In q targets -> nth_error names' q = nth_error names q) /\
    (forall j1 j2 p1 p2 s, nth_error targets j1 = Some p1 -> nth_error targets j2 = Some p2 ->
        nth_error names' p1 = Some s -> nth_error names' p2 = Some s -> j1 = j2).
Proof.
  intros Hres Hnd Hrange. unfold rename_slide_parts.
  destruct (rename_from_spec prels rIds targets 1%N names Hres Hnd Hrange) as [names' [H1 [H2 [H3 H4]]]].
  exists names'. split; auto. split; auto. split; [|split; auto].
  - intros j p Hj. rewrite (H3 j p Hj). f_equal. f_equal. lia.
  - intros j1 j2 p1 p2 s Hj1 Hj2 Hs1 Hs2.
    rewrite (H3 _ _ Hj1) in Hs1. rewrite (H3 _ _ Hj2) in Hs2.
    assert (E : slide_name (1 + N.of_nat j1)%N = slide_name (1 + N.of_nat j2)%N) by congruence.
    apply slide_name_inj in E. lia.
Qed.

(** Exactly when two parts end up with the same name: two unlisted parts already shared
    a name, or an unlisted part is called slideK.xml with K among the listed positions. *)
Theorem rename_collision_iff prels rIds targets names names' :
  resolves prels rIds targets -> NoDup targets -> (forall p, In p targets -> (p < length names)%nat) ->
  rename_slide_parts prels rIds names = Ok names' ->
  ((exists p q s, p <> q /\ nth_error names' p = Some s /\ nth_error names' q = Some s) <->
   ((exists p q s, p <> q /\ ~ In p targets /\ ~ In q targets /\
                   nth_error names p = Some s /\ nth_error names q = Some s) \/
    (exists q j, ~ In q targets /\ (j < length targets)%nat /\
                 nth_error names q = Some (slide_name (N.of_nat j + 1)%N)))).
Proof.
  intros Hres Hnd Hrange Hok.
  destruct (rename_listed prels rIds targets names Hres Hnd Hrange) as [n2 [E [HL [H3 [H4 H5]]]]].
  rewrite Hok in E. inversion E; subst n2. clear E.
  assert (Hdec : forall p, In p targets \/ ~ In p targets).
  { intros p. destruct (in_dec Nat.eq_dec p targets); auto. }
  split.
  - intros [p [q [s [Hpq [Hp Hq]]]]].
    destruct (Hdec p) as [Ip|Ip], (Hdec q) as [Iq|Iq].
    + exfalso. apply In_nth_error in Ip as [j1 Hj1]. apply In_nth_error in Iq as [j2 Hj2].
      pose proof (H5 _ _ _ _ _ Hj1 Hj2 Hp Hq). subst j2. congruence.
    + right. apply In_nth_error in Ip as [j Hj]. exists q, j. split; auto. split.
      * apply nth_error_Some. congruence.
      * rewrite <- (H4 q Iq). rewrite Hq. rewrite (H3 _ _ Hj) in Hp. congruence.
    + right. apply In_nth_error in Iq as [j Hj]. exists p, j. split; auto. split.
      * apply nth_error_Some. congruence.
      * rewrite <- (H4 p Ip). rewrite Hp. rewrite (H3 _ _ Hj) in Hq. congruence.
    + left. exists p, q, s. rewrite <- (H4 p Ip), <- (H4 q Iq). auto.
  - intros [[p [q [s [Hpq [Ip [Iq [Hp Hq]]]]]]]|[q [j [Iq [Hj Hq]]]]].
    + exists p, q, s. rewrite (H4 p Ip), (H4 q Iq). auto.
    + destruct (nth_error targets j) as [p|] eqn:Ej; [|apply nth_error_None in Ej; lia].
      exists p, q, (slide_name (N.of_nat j + 1)%N). split.
      * intros ->. apply Iq. eapply nth_error_In; eauto.
      * split; [apply (H3 _ _ Ej)|]. rewrite (H4 q Iq). auto.
Qed.

(** what the package holds once rename_slide_parts has returned is what it returned *)
Lemma rename_effect_from_ok prels : forall rIds i names names',
  rename_from i prels rIds names = Ok names' -> rename_effect_from i prels rIds names = names'.
Proof.
  induction rIds as [|r rs IH]; intros i names names' H; cbn [rename_from rename_effect_from] in *.
  - congruence.
  - destruct (lookup_rel r prels) as [p|]; [apply IH; exact H|discriminate].
Qed.

Theorem rename_effect_ok prels rIds names names' :
  rename_slide_parts prels rIds names = Ok names' -> rename_effect prels rIds names = names'.
Proof. apply rename_effect_from_ok. Qed.

Lemma rename_effect_from_length prels : forall rIds i names,
  length (rename_effect_from i prels rIds names) = length names.
Proof.
  induction rIds as [|r rs IH]; intros i names; cbn [rename_effect_from]; auto.
  destruct (lookup_rel r prels) as [p|]; auto. rewrite IH. apply set_nth_length.
Qed.

(** a deck whose presentation part is related to two slide parts but lists only one: all
    names distinct beforehand, two parts of one name after the first access of prs.slides *)
Definition unlisted_witness_names : list str :=
  [slide_name 2; slide_name 1].
Definition unlisted_witness_prels : list (str * nat) := [(rId_name 1, O); (rId_name 2, 1%nat)].

Theorem rename_unlisted_refuted :
  exists prels rIds targets names names',
    resolves prels rIds targets /\ NoDup targets /\ (forall p, In p targets -> (p < length names)%nat) /\
    NoDup names /\ rename_slide_parts prels rIds names = Ok names' /\
    exists p q s, p <> q /\ nth_error names' p = Some s /\ nth_error names' q = Some s.
Proof.
  exists unlisted_witness_prels, [rId_name 1], [O], unlisted_witness_names, [slide_name 1; slide_name 1].
  split; [|split; [|split; [|split; [|split]]]].
  - repeat constructor.
  - repeat constructor. intros [].
  - intros p [<-|[]]. simpl. lia.
  - unfold unlisted_witness_names. constructor; [|constructor; [intros []|constructor]].
    intros [H|[]]. apply slide_name_inj in H. discriminate.
  - vm_compute. reflexivity.
  - exists O, 1%nat, (slide_name 1). split; [discriminate|]. split; reflexivity.
Qed.

(* ============================================================================== *)
(** * _next_slide_partname (as repaired by 086e8ef1) *)

Lemma slide_name_packuri k : packuri_new (slide_name k) = Ok (slide_name k).
Proof. reflexivity. Qed.

(** For every number of p:sldId entries and every list of reachable part names: the call
    does not raise, its result is a slide part name slideK.xml with K at least 1, no
    reachable part carries it, and it is the conventional slide(n+1).xml whenever no
    reachable part carries that one. *)
Theorem next_slide_partname_spec n names :
  exists k, (1 <= k)%N /\ next_slide_partname n names = Ok (slide_name k) /\
            ~ In (slide_name k) names /\
            (~ In (slide_name (N.of_nat n + 1)%N) names -> k = (N.of_nat n + 1)%N).
Proof.
  unfold next_slide_partname.
  destruct (mem_str (slide_name (N.of_nat n + 1)%N) names) eqn:E.
  - apply mem_str_In in E.
    pose proof (partname_fresh s_slide_pre s_xml_post names) as H.
    destruct (next_partname s_slide_pre s_xml_post names) as [r|e].
    + destruct H as [Hf [k [Hk ->]]]. exists k. split; auto. split; [reflexivity|]. split; [exact Hf|].
      intros Hn. contradiction.
    + exfalso. destruct H as [_ H]. apply (H (tl s_slide_pre)). reflexivity.
  - exists (N.of_nat n + 1)%N. split; [lia|]. split; [apply slide_name_packuri|]. split; [|auto].
    intros Hin. apply mem_str_In in Hin. congruence.
Qed.

Corollary next_slide_partname_fresh n names r :
  next_slide_partname n names = Ok r -> ~ In r names.
Proof.
  destruct (next_slide_partname_spec n names) as [k [_ [E [Hf _]]]]. rewrite E. intros [= <-]. exact Hf.
Qed.

Corollary next_slide_partname_conventional n names :
  ~ In (slide_name (N.of_nat n + 1)%N) names ->
  next_slide_partname n names = Ok (slide_name (N.of_nat n + 1)%N).
Proof.
  intros H. destruct (next_slide_partname_spec n names) as [k [_ [E [_ Hc]]]]. rewrite (Hc H) in E. exact E.
Qed.

(** when a reachable part carries the conventional name the answer is OpcPackage.next_partname's *)
Theorem next_slide_partname_taken n names :
  In (slide_name (N.of_nat n + 1)%N) names ->
  next_slide_partname n names = next_partname s_slide_pre s_xml_post names.
Proof.
  intros H. unfold next_slide_partname. apply mem_str_In in H. rewrite H. reflexivity.
Qed.

(** after prs.slides the conventional name is taken exactly when a part that is not listed
    carries it: the condition under which the package is searched *)
Theorem next_slide_conventional_taken_iff prels rIds targets names names' q :
  resolves prels rIds targets -> NoDup targets -> (forall p, In p targets -> (p < length names)%nat) ->
  rename_slide_parts prels rIds names = Ok names' ->
  (nth_error names' q = Some (slide_name (N.of_nat (length rIds) + 1)%N) <->
   ~ In q targets /\ nth_error names q = Some (slide_name (N.of_nat (length rIds) + 1)%N)).
Proof.
  intros Hres Hnd Hrange Hok.
  destruct (rename_listed prels rIds targets names Hres Hnd Hrange) as [n2 [E [HL [H3 [H4 H5]]]]].
  rewrite Hok in E. inversion E; subst n2. clear E.
  assert (Hlen : length rIds = length targets) by (eapply Forall2_len; eauto).
  split.
  - intros Hq. destruct (in_dec Nat.eq_dec q targets) as [Iq|Iq].
    + exfalso. apply In_nth_error in Iq as [j Hj]. rewrite (H3 _ _ Hj) in Hq.
      assert (Hs : slide_name (N.of_nat j + 1)%N = slide_name (N.of_nat (length rIds) + 1)%N) by congruence.
      apply slide_name_inj in Hs.
      assert (j < length targets)%nat by (apply nth_error_Some; congruence). lia.
    + split; auto. rewrite <- (H4 q Iq). auto.
  - intros [Iq Hq]. rewrite (H4 q Iq). auto.
Qed.

Theorem rename_keyerr prels rIds names :
  (exists r, In r rIds /\ lookup_rel r prels = None) ->
  rename_slide_parts prels rIds names = Err KeyErr.
Proof. apply rename_from_keyerr. Qed.

(* ============================================================================== *)
(** * Exactly which strings pass str.isdigit and are then refused by int *)

Definition nrange (lo hi : N) : list N :=
  map (fun k => (lo + N.of_nat k)%N) (seq 0 (N.to_nat (hi + 1 - lo))).

Lemma nrange_In lo hi c : (lo <= c <= hi)%N -> In c (nrange lo hi).
Proof.
  intros H. unfold nrange. apply in_map_iff. exists (N.to_nat (c - lo)). split; [lia|].
  apply in_seq. lia.
Qed.

Definition tok_ok (c : N) : bool :=
  match py_decimal c with
  | Some d => match tok_of c with TDigit d' => N.eqb d d' | _ => false end
  | None => if py_isdigit_char c then match tok_of c with TBad => true | _ => false end else true
  end.

Lemma tok_ok_ascii : forallb tok_ok (nrange 0 126) = true.
Proof. vm_compute. reflexivity. Qed.

Lemma tok_ok_spaces :
  forallb tok_ok (flat_map (fun r => nrange (fst r) (snd r)) uni_space_ranges) = true.
Proof. vm_compute. reflexivity. Qed.

Lemma existsb_in_rng_In c rs :
  existsb (in_rng c) rs = true -> In c (flat_map (fun r => nrange (fst r) (snd r)) rs).
Proof.
  intros H. apply existsb_exists in H as [r [Hr Hc]]. apply in_flat_map. exists r. split; auto.
  unfold in_rng in Hc. apply andb_true_iff in Hc as [H1 H2].
  apply N.leb_le in H1, H2. apply nrange_In; lia.
Qed.

Lemma tok_ok_all c : tok_ok c = true.
Proof.
  destruct (N.ltb_spec c 127) as [Hlt|Hge].
  - pose proof tok_ok_ascii as H. rewrite forallb_forall in H. apply H. apply nrange_In; lia.
  - destruct (existsb (in_rng c) uni_space_ranges) eqn:Es.
    + pose proof tok_ok_spaces as H. rewrite forallb_forall in H. apply H.
      apply existsb_in_rng_In; auto.
    + unfold tok_ok, tok_of. replace (c <? 127)%N with false by (symmetry; apply N.ltb_ge; auto).
      rewrite Es. destruct (py_decimal c) as [d|]; [apply N.eqb_refl|].
      destruct (py_isdigit_char c); reflexivity.
Qed.

Lemma tok_of_dec c : is_dec c = true -> exists d, tok_of c = TDigit d.
Proof.
  unfold is_dec. pose proof (tok_ok_all c) as H. unfold tok_ok in H.
  destruct (py_decimal c) as [d|]; [|discriminate]. intros _.
  destruct (tok_of c); try discriminate. eauto.
Qed.

Lemma tok_of_nondec c : py_isdigit_char c = true -> is_dec c = false -> tok_of c = TBad.
Proof.
  unfold is_dec. pose proof (tok_ok_all c) as H. unfold tok_ok in H.
  destruct (py_decimal c) as [d|]; [discriminate|]. intros Hd _. rewrite Hd in H.
  destruct (tok_of c); try discriminate. reflexivity.
Qed.

Lemma scan_isdigit s : forall acc cnt, forallb py_isdigit_char s = true ->
  exists v, scan_digits (map tok_of s) false acc cnt
            = Some (v, (cnt + N.of_nat (length (take_while is_dec s)))%N,
                    map tok_of (drop_while is_dec s)).
Proof.
  induction s as [|c s IH]; intros acc cnt H.
  - simpl. exists acc. rewrite N.add_0_r. reflexivity.
  - cbn [forallb] in H. apply andb_true_iff in H as [Hc Hs]. cbn [map take_while drop_while].
    destruct (is_dec c) eqn:Ed.
    + destruct (tok_of_dec c Ed) as [d Hd]. rewrite Hd. cbn [scan_digits].
      destruct (IH (acc * 10 + Z.of_N d) (cnt + 1)%N Hs) as [v Hv]. exists v. rewrite Hv.
      cbn [length]. f_equal. f_equal. f_equal. lia.
    + rewrite (tok_of_nondec c Hc Ed). cbn [scan_digits map length]. exists acc.
      rewrite (tok_of_nondec c Hc Ed). rewrite N.add_0_r. reflexivity.
Qed.

Theorem isdigit_int_fails_iff s : py_isdigit s = true ->
  (py_int s = Err ValueErr <->
   (forallb is_dec s = false \/ (max_str_digits < N.of_nat (length s))%N)).
Proof.
  intros Hd. destruct s as [|c s]; [discriminate|]. unfold py_isdigit in Hd.
  pose proof Hd as Hd'. cbn [forallb] in Hd'. apply andb_true_iff in Hd' as [Hc Hs].
  unfold py_int. cbn [map].
  destruct (is_dec c) eqn:Ec.
  - destruct (tok_of_dec c Ec) as [d Ht]. rewrite Ht. cbn [drop_while is_tspace].
    unfold parse_unsigned. rewrite <- Ht.
    change (tok_of c :: map tok_of s) with (map tok_of (c :: s)).
    destruct (scan_isdigit (c :: s) 0 0%N Hd) as [v Hv]. rewrite Hv. rewrite N.add_0_l.
    destruct (forallb is_dec (c :: s)) eqn:Eall.
    + rewrite (take_while_all _ _ Eall), (drop_while_all _ _ Eall). cbn [map forallb].
      destruct (N.ltb_spec max_str_digits (N.of_nat (length (c :: s)))) as [Hlt|Hge].
      * split; auto.
      * split; [discriminate|]. intros [H|H]; [discriminate|lia].
    + split; [auto|intros _].
      destruct (drop_while is_dec (c :: s)) as [|c' r] eqn:Edrop.
      * exfalso. pose proof (take_drop_while is_dec (c :: s)) as Htd. rewrite Edrop, app_nil_r in Htd.
        assert (Hall : forallb is_dec (take_while is_dec (c :: s)) = true).
        { clear. induction (c :: s) as [|x l IH]; simpl; auto. destruct (is_dec x) eqn:E; simpl; auto.
          rewrite E; auto. }
        rewrite Htd in Hall. congruence.
      * assert (Hc' : is_dec c' = false).
        { clear -Edrop. induction (c :: s) as [|x l IH]; simpl in Edrop; [discriminate|].
          destruct (is_dec x) eqn:E; auto. inversion Edrop; subst; auto. }
        assert (Hin : In c' (c :: s)) by (eapply drop_while_In; eauto).
        rewrite forallb_forall in Hd. specialize (Hd _ Hin).
        cbn [map]. rewrite (tok_of_nondec c' Hd Hc'). reflexivity.
  - rewrite (tok_of_nondec c Hc Ec). cbn [drop_while is_tspace forallb]. rewrite Ec. cbn [andb].
    split; auto.
Qed.

Theorem image_idx_both names :
  (1 <= next_image_idx names /\ ~ In (next_image_idx names) (image_idxs names)) /\
  (NoDup (image_idxs names) -> (forall x, In x (image_idxs names) -> 1 <= x) ->
   forall k, 1 <= k < next_image_idx names -> In k (image_idxs names)).
Proof. split; [exact (image_idx_fresh names)|exact (image_idx_first_free names)]. Qed.

(** ** after the repair (isdecimal filter): the scan cannot fail on a digit-like character *)
Theorem isdecimal_int_fails_iff s : py_isdecimal s = true ->
  (py_int s = Err ValueErr <-> (max_str_digits < N.of_nat (length s))%N).
Proof.
  intros H. destruct (py_isdecimal_isdigit s H) as [H1 H2].
  rewrite (isdigit_int_fails_iff s H1). rewrite H2. split; [intros [Hc|Hc]; [discriminate|auto]|auto].
Qed.

Theorem shape_alloc_raises_len_iff ids :
  (exists e, next_shape_id_max ids = Err e) <->
  exists s, In s ids /\ py_isdecimal s = true /\ (max_str_digits < N.of_nat (length s))%N.
Proof.
  rewrite shape_alloc_raises_iff. split; intros [s [H1 [H2 H3]]]; exists s; split; auto; split; auto;
    apply (isdecimal_int_fails_iff s H2); auto.
Qed.

Theorem shape_alloc_total ids :
  (forall s, In s ids -> (N.of_nat (length s) <= max_str_digits)%N) ->
  (exists r, next_shape_id_max ids = Ok r) /\ (exists g, next_shape_id_gap ids = Ok g).
Proof.
  intros Hlen.
  assert (Hok : forall s, In s ids -> py_isdecimal s = true -> exists v, py_int s = Ok v).
  { intros s Hs Hd. destruct (py_int s) as [v|e] eqn:E; eauto.
    pose proof (py_int_err _ _ E); subst. apply (isdecimal_int_fails_iff s Hd) in E.
    specialize (Hlen s Hs). lia. }
  assert (Hu : used_ids ids = Ok (num_ids ids)).
  { destruct (used_ids_cases ids) as [[H1 _]|[_ [s [Ha [Hb Hc]]]]]; auto.
    destruct (Hok s Ha Hb) as [v Hv]. congruence. }
  split.
  - unfold next_shape_id_max, max_shape_id. rewrite Hu. cbn [bind]. eauto.
  - destruct (shape_gap_fresh ids) as [Hn _]. unfold next_shape_id_gap in *. rewrite Hu in *. cbn [bind] in *.
    destruct (first_gap _ _ _); [eauto|congruence].
Qed.

(** regression: the witness of the repaired defect (an @id of SUPERSCRIPT TWO) *)
Theorem shape_nondecimal_regression :
  next_shape_id_max [[49%N]; [178%N]] = Ok 2 /\
  next_shape_id_gap [[49%N]; [178%N]] = Ok 2.
Proof. split; vm_compute; reflexivity. Qed.

(* ============================================================================== *)
(** * What turbo mode does guarantee: one proxy, only max-allocator additions *)

Definition turbo_inv (st : sstate) (c : Z) : Prop :=
  nth_error (caches st) 0 = Some (Some c) /\
  (forall v, In v (num_ids (all_ids st)) -> v <= c) /\
  NoDup (num_ids (shape_ids st)) /\ 0 <= c.

Lemma turbo_step st c : turbo_inv st c ->
  turbo_inv (fst (step st (AddMax 0))) (c + 1) /\ snd (step st (AddMax 0)) = Ok (c + 1).
Proof.
  intros [Hc [Hle [Hnd Hpos]]]. cbn [step]. unfold alloc_via. rewrite Hc. cbn [fst snd].
  split; [|reflexivity]. unfold push_shape. cbn [shape_ids other_ids caches].
  destruct (caches st) as [|c0 cs] eqn:Ec; [discriminate|].
  assert (Hnum : forall v, In v (num_ids [show_Z (c + 1)]) -> v = c + 1).
  { intros v Hv. destruct (num_ids_numeral (c + 1) ltac:(lia)) as [E|E]; rewrite E in Hv;
      [destruct Hv as [<-|[]]; auto|destruct Hv]. }
  split; [reflexivity|]. split; [|split; [|lia]].
  - intros v Hv. unfold all_ids in *. cbn [shape_ids other_ids] in *.
    rewrite !num_ids_app in Hv. rewrite num_ids_app in Hle.
    rewrite !in_app_iff in Hv. destruct Hv as [[Hv|Hv]|Hv].
    + specialize (Hle v). rewrite in_app_iff in Hle. specialize (Hle (or_introl Hv)). lia.
    + apply Hnum in Hv. lia.
    + specialize (Hle v). rewrite in_app_iff in Hle. specialize (Hle (or_intror Hv)). lia.
  - cbn [shape_ids]. rewrite num_ids_app.
    assert (Hf : ~ In (c + 1) (num_ids (shape_ids st))).
    { intros Hi. specialize (Hle (c + 1)). unfold all_ids in Hle. rewrite num_ids_app, in_app_iff in Hle.
      specialize (Hle (or_introl Hi)). lia. }
    destruct (num_ids_numeral (c + 1) ltac:(lia)) as [E|E]; rewrite E.
    + apply NoDup_snoc; auto.
    + rewrite app_nil_r; auto.
Qed.

Theorem turbo_single_proxy k : forall st c, turbo_inv st c ->
  exists c', turbo_inv (fst (run_ops st (repeat (AddMax 0) k))) c' /\
  Forall (fun o => exists n, o = Ok n) (snd (run_ops st (repeat (AddMax 0) k))).
Proof.
  induction k as [|k IH]; intros st c H.
  - exists c. cbn [repeat run_ops fst snd]. split; auto.
  - cbn [repeat]. destruct (run_ops_cons st (AddMax 0) (repeat (AddMax 0) k)) as [E1 E2].
    rewrite E1, E2. destruct (turbo_step st c H) as [H1 H2].
    destruct (IH _ _ H1) as [c' [H3 H4]]. exists c'. split; auto.
    constructor; auto. rewrite H2. eauto.
Qed.

(** enabling turbo on the only proxy of a consistent part establishes the invariant *)
Lemma turbo_enable st m : shape_inv st -> caches st = [None] -> max_shape_id (all_ids st) = Ok m ->
  turbo_inv (fst (step st (SetTurbo 0 true))) m.
Proof.
  intros [_ Hnd] Hc Hm. cbn [step]. rewrite Hc. cbn [nth_error]. rewrite Hm. cbn [fst set_nth].
  unfold max_shape_id in Hm.
  destruct (used_ids_cases (all_ids st)) as [[H1 _]|[H1 _]]; rewrite H1 in Hm; cbn [bind] in Hm; [|discriminate].
  inversion Hm; subst m. clear Hm.
  split; [reflexivity|]. unfold all_ids. cbn [shape_ids other_ids].
  split; [|split; auto].
  - intros v Hv. apply max_of_used_ge; auto.
  - apply max_of_used_nonneg. apply num_ids_nonneg.
Qed.

Theorem turbo_single_proxy_safe k st m :
  shape_inv st -> caches st = [None] -> max_shape_id (all_ids st) = Ok m ->
  NoDup (num_ids (shape_ids (fst (run_ops st (SetTurbo 0 true :: repeat (AddMax 0) k))))) /\
  Forall (fun o => exists n, o = Ok n) (snd (run_ops st (SetTurbo 0 true :: repeat (AddMax 0) k))).
Proof.
  intros Hi Hc Hm.
  destruct (run_ops_cons st (SetTurbo 0 true) (repeat (AddMax 0) k)) as [E1 E2]. rewrite E1, E2.
  pose proof (turbo_enable st m Hi Hc Hm) as Ht.
  destruct (turbo_single_proxy k _ _ Ht) as [c' [[_ [_ [Hnd _]]] Hall]].
  split; auto. constructor; auto.
  cbn [step]. rewrite Hc. cbn [nth_error]. rewrite Hm. cbn [snd]. eauto.
Qed.

(** ** errors of the slide-id allocator over attribute strings *)
Lemma next_slide_id_Z_err used e : next_slide_id_Z used = Err e -> e = StopIter.
Proof.
  unfold next_slide_id_Z. destruct (_ <=? _); [discriminate|].
  destruct (sortZ (filter slide_id_valid used)) as [|v vs]; [discriminate|].
  apply enum_first_neq_err.
Qed.

Theorem slide_id_errors ids e : next_slide_id ids = Err e ->
  (e = ValueErr /\ exists s, In s ids /\ py_int s = Err ValueErr) \/
  (e = StopIter /\ exists vals, mapM py_int ids = Ok vals /\ next_slide_id_Z vals = Err StopIter).
Proof.
  unfold next_slide_id. destruct (mapM py_int ids) as [vals|e'] eqn:Em; cbn [bind].
  - intros H. pose proof (next_slide_id_Z_err _ _ H); subst. right. split; auto. exists vals; auto.
  - intros H; inversion H; subst e'. apply mapM_err in Em as [s [Hs He]].
    pose proof (py_int_err _ _ He); subst. left. split; auto. exists s; auto.
Qed.

(* ============================================================================== *)
(** * Placeholder names *)

Lemma ph_name_inj base a b : ph_name base a = ph_name base b -> a = b.
Proof.
  unfold ph_name. intros H. apply app_inv_head in H. apply app_inv_head in H.
  apply dec_of_N_inj; auto.
Qed.

Lemma ph_name_search_spec fuel : forall base n names,
  match ph_name_search fuel base n names with
  | Some r => ~ In r names /\ exists k, (n <= k < n + N.of_nat fuel)%N /\ r = ph_name base k /\
                                        forall j, (n <= j < k)%N -> In (ph_name base j) names
  | None => forall j, (n <= j < n + N.of_nat fuel)%N -> In (ph_name base j) names
  end.
Proof.
  induction fuel as [|f IH]; intros base n names.
  - simpl. intros j Hj; lia.
  - cbn [ph_name_search]. destruct (mem_str (ph_name base n) names) eqn:E.
    + apply mem_str_In in E. specialize (IH base (n + 1)%N names).
      destruct (ph_name_search f base (n + 1) names) as [r|].
      * destruct IH as [H1 [k [H2 [H3 H4]]]]. split; auto. exists k. split; [lia|]. split; auto.
        intros j Hj. destruct (N.eq_dec j n) as [->|Hne]; auto. apply H4; lia.
      * intros j Hj. destruct (N.eq_dec j n) as [->|Hne]; auto. apply IH; lia.
    + split.
      * intros Hin. apply mem_str_In in Hin. congruence.
      * exists n. split; [lia|]. split; auto. intros j Hj; lia.
Qed.

(** the while-True loop terminates within len(names)+1 iterations and its result is a
    name not yet used in the part: the first free number from id-1 upwards *)
Theorem ph_name_fresh base n names :
  exists r, next_ph_name base n names = Some r /\ ~ In r names /\
    exists k, (n <= k)%N /\ r = ph_name base k /\ forall j, (n <= j < k)%N -> In (ph_name base j) names.
Proof.
  unfold next_ph_name. pose proof (ph_name_search_spec (S (length names)) base n names) as H.
  destruct (ph_name_search (S (length names)) base n names) as [r|].
  - destruct H as [H1 [k [H2 [H3 H4]]]]. exists r. split; auto. split; auto. exists k. split; [lia|auto].
  - exfalso.
    set (l := map (fun i => ph_name base (n + N.of_nat i)%N) (seq 0 (S (length names)))).
    assert (Hnd : NoDup l).
    { apply NoDup_map_inj; [|apply seq_NoDup].
      intros a b Hab. apply ph_name_inj in Hab. lia. }
    assert (Hincl : incl l names).
    { intros x Hx. apply in_map_iff in Hx as [i [<- Hi]]. apply in_seq in Hi. apply H. lia. }
    pose proof (NoDup_incl_length Hnd Hincl) as Hl. unfold l in Hl.
    rewrite map_length, seq_length in Hl. lia.
Qed.
