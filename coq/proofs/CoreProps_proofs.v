(** Lemmas about model/CoreProps.v (C18). *)
From V.lib Require Import Prelude Calendar.
From V.model Require Import CoreProps.
From V.proofs Require Import Prelude_proofs Calendar_proofs.
From Coq Require Import ZifyBool.

Ltac Zify.zify_post_hook ::= Z.to_euclidean_division_equations.

(** ---- properties ---- *)

Lemma prop_eqb_eq p q : prop_eqb p q = true <-> p = q.
Proof. split; [|intros ->; destruct q; reflexivity]. destruct p, q; cbv; congruence. Qed.

Lemma prop_eqb_refl p : prop_eqb p p = true.
Proof. apply prop_eqb_eq; reflexivity. Qed.

Lemma prop_eqb_neq p q : p <> q -> prop_eqb p q = false.
Proof. intros H. destruct (prop_eqb p q) eqn:E; auto. apply prop_eqb_eq in E. contradiction. Qed.

(** ---- decimal text ---- *)

Definition dval (s : str) (acc : Z) : Z :=
  fold_left (fun a c => (10 * a + Z.of_N (c - 48))%Z) s acc.

Lemma dval_app s t acc : dval (s ++ t) acc = dval t (dval s acc).
Proof. unfold dval. apply fold_left_app. Qed.

Lemma dval_shift s acc : dval s acc = (acc * 10 ^ Z.of_nat (length s) + dval s 0)%Z.
Proof.
  revert acc. induction s as [|c s IH]; intros acc.
  - cbn [dval fold_left length]. change (Z.of_nat 0) with 0%Z. lia.
  - cbn [dval fold_left length]. fold (dval s (10 * acc + Z.of_N (c - 48))%Z).
    fold (dval s (10 * 0 + Z.of_N (c - 48))%Z).
    rewrite IH. rewrite (IH (10 * 0 + Z.of_N (c - 48))%Z).
    rewrite Nat2Z.inj_succ, Z.pow_succ_r by lia. lia.
Qed.

Lemma udigit_ascii c : is_digit c = true -> udigit_val c = Some (Z.of_N (c - 48)).
Proof. intros H. unfold udigit_val. rewrite H. reflexivity. Qed.

Lemma digits_us_ascii s prev acc cnt :
  forallb is_digit s = true -> (s <> [] \/ prev = true) ->
  digits_us s prev acc cnt = Some (dval s acc, (cnt + N.of_nat (length s))%N).
Proof.
  revert prev acc cnt. induction s as [|c s IH]; intros prev acc cnt Hd Hne.
  - destruct Hne as [Hne | ->]; [congruence|]. cbn. f_equal. f_equal. lia.
  - cbn [forallb] in Hd. apply andb_true_iff in Hd as [Hc Hs].
    cbn [digits_us]. rewrite (udigit_ascii c Hc).
    rewrite IH by auto. cbn [dval fold_left length]. f_equal. f_equal. lia.
Qed.

Lemma is_digit_not_space c : is_digit c = true -> int_space c = false.
Proof. unfold is_digit, int_space. lia. Qed.

Lemma drop_while_hd {A} (f : A -> bool) c s : f c = false -> drop_while f (c :: s) = c :: s.
Proof. intros H. cbn. rewrite H. reflexivity. Qed.

Lemma strip_digits s : forallb is_digit s = true -> strip_int_space s = s.
Proof.
  intros H. unfold strip_int_space.
  assert (D : forall t, forallb is_digit t = true -> drop_while int_space t = t).
  { intros [|c t] Ht; auto. cbn [forallb] in Ht. apply andb_true_iff in Ht as [Hc _].
    apply drop_while_hd. apply is_digit_not_space; auto. }
  rewrite (D s H). rewrite D by (rewrite forallb_rev; auto). apply rev_involutive.
Qed.

Lemma split_sign_digits s : forallb is_digit s = true -> split_sign s = (false, s).
Proof.
  destruct s as [|c t]; auto. cbn [forallb]. intros H. apply andb_true_iff in H as [Hc _].
  unfold split_sign. unfold is_digit in Hc.
  destruct (N.eqb_spec c 43); [lia|]. destruct (N.eqb_spec c 45); [lia|]. reflexivity.
Qed.

(** int() on a non-empty run of at most 4300 ASCII digits. *)
Lemma py_int_digits s :
  forallb is_digit s = true -> s <> [] -> (N.of_nat (length s) <= 4300)%N ->
  py_int s = Some (dval s 0).
Proof.
  intros Hd Hne Hl. unfold py_int. rewrite (strip_digits s Hd), (split_sign_digits s Hd).
  rewrite digits_us_ascii by auto. unfold max_str_digits.
  destruct (N.ltb_spec 4300 (0 + N.of_nat (length s))); [exfalso; lia|reflexivity].
Qed.

(** ---- dec_of_N ---- *)

Lemma digit_sub r : Z.of_N (48 + r - 48) = Z.of_N r.
Proof. lia. Qed.

Lemma ddf_spec fuel : forall n acc, (n < 2 ^ N.of_nat fuel)%N -> (0 < fuel)%nat ->
  forallb is_digit acc = true ->
  forallb is_digit (dec_digits_fuel fuel n acc) = true /\
  dec_digits_fuel fuel n acc <> [] /\
  dval (dec_digits_fuel fuel n acc) 0 = (Z.of_N n * 10 ^ Z.of_nat (length acc) + dval acc 0)%Z.
Proof.
  induction fuel as [|f IH]; intros n acc Hn Hf Ha; [lia|].
  cbn [dec_digits_fuel].
  assert (Hdig : is_digit (48 + n mod 10) = true).
  { unfold is_digit. assert (Hr : (n mod 10 < 10)%N) by (apply N.mod_upper_bound; discriminate).
    revert Hr. generalize (n mod 10)%N. intros r Hr. lia. }
  destruct (N.ltb_spec n 10) as [Hlt|Hge].
  - split; [cbn [forallb]; rewrite Hdig, Ha; reflexivity|]. split; [discriminate|].
    change (dval ((48 + n mod 10)%N :: acc) 0) with (dval acc (10 * 0 + Z.of_N (48 + n mod 10 - 48))%Z).
    rewrite dval_shift, digit_sub. rewrite N.mod_small by lia. lia.
  - assert (Hf' : (0 < f)%nat).
    { destruct f; [|lia]. change (2 ^ N.of_nat 1)%N with 2%N in Hn. lia. }
    assert (Hn' : (n / 10 < 2 ^ N.of_nat f)%N).
    { rewrite Nat2N.inj_succ, N.pow_succ_r' in Hn.
      apply N.div_lt_upper_bound; lia. }
    specialize (IH (n / 10)%N ((48 + n mod 10)%N :: acc) Hn' Hf').
    destruct IH as [I1 [I2 I3]]; [cbn [forallb]; rewrite Hdig, Ha; reflexivity|].
    split; auto. split; auto. rewrite I3.
    change (dval ((48 + n mod 10)%N :: acc) 0) with (dval acc (10 * 0 + Z.of_N (48 + n mod 10 - 48))%Z).
    rewrite (dval_shift acc). cbn [length]. rewrite Nat2Z.inj_succ, Z.pow_succ_r by lia.
    assert (E : n = (10 * (n / 10) + n mod 10)%N) by (apply N.div_mod; discriminate).
    assert (E' : Z.of_N n = (10 * Z.of_N (n / 10) + Z.of_N (n mod 10))%Z).
    { rewrite E at 1. rewrite N2Z.inj_add, N2Z.inj_mul. reflexivity. }
    rewrite digit_sub. rewrite E'. ring.
Qed.

Lemma dec_of_N_spec n :
  forallb is_digit (dec_of_N n) = true /\ dec_of_N n <> [] /\ dval (dec_of_N n) 0 = Z.of_N n.
Proof.
  unfold dec_of_N.
  destruct (ddf_spec (S (N.to_nat (N.size n))) n []) as [A [B C]]; auto; try lia.
  - rewrite Nat2N.inj_succ, N2Nat.id, N.pow_succ_r'.
    pose proof (N.size_gt n). lia.
  - split; auto. split; auto. rewrite C. cbn [length dval fold_left]. change (Z.of_nat 0) with 0%Z. lia.
Qed.

(** ---- spec-level text forms (used in the theorem statements) ---- *)

(** YYYY-MM-DDThh:mm:ss with a four-digit zero-padded year. *)
Definition w3c_full (t : datetime) : str :=
  pad4 (dt_year t) ++ c_dash :: pad2 (dt_month t) ++ c_dash :: pad2 (dt_day t) ++
  c_T :: pad2 (dt_hour t) ++ c_colon :: pad2 (dt_minute t) ++ c_colon :: pad2 (dt_second t).
Definition w3c_date (y m d : Z) : str := pad4 y ++ c_dash :: pad2 m ++ c_dash :: pad2 d.
Definition w3c_ym (y m : Z) : str := pad4 y ++ c_dash :: pad2 m.
(** Zone designator: sign, hh, colon, mm. *)
Definition off_str (neg : bool) (hh mm : Z) : str :=
  (if neg then c_dash else c_plus) :: pad2 hh ++ c_colon :: pad2 mm.
(** Seconds east of UTC denoted by the designator. *)
Definition off_seconds (neg : bool) (hh mm : Z) : Z :=
  ((if neg then -1 else 1) * (hh * 3600 + mm * 60))%Z.

(** YYYY-MM-DDThh:mm (no seconds). *)
Definition w3c_min (t : datetime) : str :=
  w3c_date (dt_year t) (dt_month t) (dt_day t) ++ c_T :: pad2 (dt_hour t) ++ c_colon :: pad2 (dt_minute t).

(** What may follow a time: nothing, Z, or a signed hh:mm designator. *)
Inductive zone := ZNone | ZUtc | ZOff (neg : bool) (hh mm : Z).
Definition zone_str (z : zone) : str :=
  match z with ZNone => [] | ZUtc => [c_Z] | ZOff n h m => off_str n h m end.
Definition zone_seconds (z : zone) : Z :=
  match z with ZOff n h m => off_seconds n h m | _ => 0%Z end.
Definition zone_ok (z : zone) : Prop :=
  match z with ZOff _ h m => (0 <= h <= 99)%Z /\ (0 <= m <= 99)%Z | _ => True end.

(** The three time granularities of W3CDTF: minutes, seconds, seconds with a decimal fraction. *)
Inductive timeform := TMin | TSec | TFrac (f : str).
Definition time_text (g : timeform) (t : datetime) : str :=
  match g with
  | TMin => w3c_min t
  | TSec => w3c_full t
  | TFrac f => w3c_full t ++ 46%N :: f
  end.
Definition form_ok (g : timeform) (t : datetime) : Prop :=
  match g with
  | TMin => dt_second t = 0%Z
  | TSec => True
  | TFrac f => f <> [] /\ forallb is_digit f = true
  end.

(** The UTC wall clock of local time [t] in zone [z] (nothing and Z: as written), as Python
    computes it: OverflowError outside years 1..9999. *)
Definition utc_of (t : datetime) (z : zone) : res datetime :=
  match z with
  | ZOff n h m =>
      let r := add_seconds t (- off_seconds n h m) in
      if in_py_range r then Ok r else Err OverflowErr
  | _ => Ok t
  end.

(** ---- digit characters ---- *)

Lemma digit_char_is_digit v : (0 <= v <= 9)%Z -> is_digit (digit_char v) = true.
Proof. unfold is_digit, digit_char. lia. Qed.

Lemma digit_char_val v : (0 <= v <= 9)%Z -> udigit_val (digit_char v) = Some v.
Proof.
  intros H. rewrite udigit_ascii by (apply digit_char_is_digit; auto).
  unfold digit_char. f_equal. lia.
Qed.

Lemma digit_char_udigit v : (0 <= v <= 9)%Z -> is_udigit (digit_char v) = true.
Proof. intros H. unfold is_udigit. rewrite digit_char_val; auto. Qed.

Lemma pad2_digits v : (0 <= v <= 99)%Z -> forallb is_digit (pad2 v) = true.
Proof.
  intros H. unfold pad2. cbn [forallb].
  rewrite !digit_char_is_digit by lia. reflexivity.
Qed.

Lemma pad4_digits v : (0 <= v <= 9999)%Z -> forallb is_digit (pad4 v) = true.
Proof.
  intros H. unfold pad4. cbn [forallb].
  rewrite !digit_char_is_digit by lia. reflexivity.
Qed.

Lemma dval_digit_char v acc : (0 <= v <= 9)%Z ->
  (10 * acc + Z.of_N (digit_char v - 48))%Z = (10 * acc + v)%Z.
Proof. intros H. unfold digit_char. lia. Qed.

Lemma py_int_pad2 v : (0 <= v <= 99)%Z -> py_int (pad2 v) = Some v.
Proof.
  intros H. rewrite py_int_digits; [|apply pad2_digits; auto|discriminate|cbn; lia].
  f_equal. unfold pad2, dval. cbn [fold_left]. rewrite !dval_digit_char by lia. lia.
Qed.

Lemma py_int_pad4 v : (0 <= v <= 9999)%Z -> py_int (pad4 v) = Some v.
Proof.
  intros H. rewrite py_int_digits; [|apply pad4_digits; auto|discriminate|cbn; lia].
  f_equal. unfold pad4, dval. cbn [fold_left]. rewrite !dval_digit_char by lia. lia.
Qed.


Lemma valid_dt_bounds t : valid_datetime t = true ->
  (1 <= dt_month t <= 12 /\ 1 <= dt_day t <= 31 /\ 0 <= dt_hour t <= 23 /\
   0 <= dt_minute t <= 59 /\ 0 <= dt_second t <= 59)%Z.
Proof.
  unfold valid_datetime, valid_date, date_of, valid_time, days_in_month. intros H.
  pose proof (dim_pos (is_leap (dt_year t)) (dt_month t)). lia.
Qed.

Lemma mkDT_eta t :
  mkDT (dt_year t) (dt_month t) (dt_day t) (dt_hour t) (dt_minute t) (dt_second t) = t.
Proof. destruct t; reflexivity. Qed.

Lemma in_py_range_iff t : in_py_range t = true <-> (1 <= dt_year t <= 9999)%Z.
Proof. unfold in_py_range. lia. Qed.

Lemma valid_date_datetime y m d : valid_date (y, m, d) = true ->
  valid_datetime (mkDT y m d 0 0 0) = true.
Proof. intros V. unfold valid_datetime, date_of. cbn [dt_year dt_month dt_day dt_hour dt_minute dt_second]. rewrite V. reflexivity. Qed.

(** ---- _offset_dt ---- *)

Lemma offset_dt_spec t neg hh mm : (0 <= hh <= 99)%Z -> (0 <= mm <= 99)%Z ->
  offset_dt t (off_str neg hh mm) =
  let r := add_seconds t (- off_seconds neg hh mm) in
  if in_py_range r then Ok r else Err OverflowErr.
Proof.
  intros H M. unfold off_str, pad2, offset_dt. cbn [app].
  rewrite !digit_char_val by lia.
  destruct neg.
  - change ((c_dash =? 43)%N) with false. change ((c_dash =? 45)%N) with true.
    change ((c_colon =? 58)%N) with true. cbv beta iota zeta. cbn [orb andb]. cbv beta iota.
    match goal with |- context [add_seconds t ?x] =>
      replace x with (- off_seconds true hh mm)%Z by (unfold off_seconds; lia) end.
    reflexivity.
  - change ((c_plus =? 43)%N) with true.
    change ((c_colon =? 58)%N) with true. cbv beta iota zeta. cbn [orb andb]. cbv beta iota.
    match goal with |- context [add_seconds t ?x] =>
      replace x with (- off_seconds false hh mm)%Z by (unfold off_seconds; lia) end.
    reflexivity.
Qed.

(** ---- the W3CDTF pattern ---- *)

Lemma two_ud_pad v : (0 <= v <= 99)%Z ->
  two_ud (digit_char (v / 10)) (digit_char (v mod 10)) = Some v.
Proof.
  intros H. unfold two_ud. rewrite !digit_char_val by lia. f_equal. lia.
Qed.

Lemma at_end_cons c r : (c =? 10)%N = false -> at_end (c :: r) = false.
Proof. intros H. cbn [at_end]. rewrite H. reflexivity. Qed.

Definition zone_off (z : zone) : option str :=
  match z with ZOff n h m => Some (off_str n h m) | _ => None end.

Lemma tz_end_zone z : zone_ok z -> tz_end (zone_str z) = Some (zone_off z).
Proof.
  destruct z as [| |neg hh mm]; [reflexivity|reflexivity|].
  intros [H M]. unfold zone_str, zone_off, off_str, pad2, tz_end. cbn [app].
  destruct neg.
  - rewrite at_end_cons by reflexivity.
    change ((c_dash =? 90)%N) with false. change ((c_dash =? 43)%N) with false.
    change ((c_dash =? 45)%N) with true. change ((c_colon =? 58)%N) with true.
    cbv beta iota. cbn [orb]. cbv beta iota.
    rewrite !digit_char_udigit by lia. reflexivity.
  - rewrite at_end_cons by reflexivity.
    change ((c_plus =? 90)%N) with false. change ((c_plus =? 43)%N) with true.
    change ((c_colon =? 58)%N) with true.
    cbv beta iota. cbn [orb]. cbv beta iota.
    rewrite !digit_char_udigit by lia. reflexivity.
Qed.

(** The first character of a zone designator is neither a digit nor a dot nor a colon. *)
Lemma zone_hd z :
  match zone_str z with
  | [] => True
  | c :: _ => is_udigit c = false /\ (c =? 46)%N = false /\ (c =? 58)%N = false
  end.
Proof. destruct z as [| |[|] hh mm]; cbn [zone_str off_str]; auto; repeat split; vm_compute; reflexivity. Qed.

Lemma frac_tz_end_zone z : zone_ok z -> frac_tz_end (zone_str z) = Some (zone_off z).
Proof.
  intros Z. rewrite <- (tz_end_zone z Z). unfold frac_tz_end.
  pose proof (zone_hd z) as H. destruct (zone_str z) as [|c r]; [reflexivity|].
  destruct H as [_ [H _]]. rewrite H. reflexivity.
Qed.

Lemma is_digit_udigit c : is_digit c = true -> is_udigit c = true.
Proof. intros H. unfold is_udigit. rewrite udigit_ascii by auto. reflexivity. Qed.

Lemma frac_tz_end_frac f z : f <> [] -> forallb is_digit f = true -> zone_ok z ->
  frac_tz_end (46%N :: f ++ zone_str z) = Some (zone_off z).
Proof.
  intros Hne Hd Z. unfold frac_tz_end. change ((46 =? 46)%N) with true. cbn [andb].
  assert (Hu : forallb is_udigit f = true).
  { rewrite forallb_forall in *. intros x Hx. apply is_digit_udigit; auto. }
  assert (Hh : match zone_str z with [] => true | x :: _ => negb (is_udigit x) end = true).
  { pose proof (zone_hd z) as H. destruct (zone_str z) as [|c r]; auto. destruct H as [H _]. rewrite H. reflexivity. }
  rewrite take_while_app_hd, drop_while_app_hd by auto.
  destruct f as [|x f]; [congruence|]. cbn [is_nil negb]. apply tz_end_zone; auto.
Qed.

Lemma sec_part_none z : zone_ok z -> sec_part (zone_str z) = Some (0%Z, zone_off z).
Proof.
  intros Z. pose proof (tz_end_zone z Z) as T. pose proof (zone_hd z) as H.
  unfold sec_part. destruct (zone_str z) as [|c [|a [|b r]]]; try (rewrite T; reflexivity).
  destruct H as [_ [_ H]]. rewrite H, T. reflexivity.
Qed.

Lemma sec_part_sec v tail : (0 <= v <= 99)%Z ->
  sec_part (c_colon :: pad2 v ++ tail) =
  match frac_tz_end tail with Some z => Some (v, z) | None => None end.
Proof.
  intros H. unfold pad2. cbn [app]. unfold sec_part.
  change ((c_colon =? 58)%N) with true. cbv beta iota. rewrite two_ud_pad by auto. reflexivity.
Qed.

Lemma after_day_end y mo dd : after_day y mo dd [] = Some (mkDT y mo dd 0 0 0, None).
Proof. reflexivity. Qed.

Lemma after_day_time y mo dd hh mi r4 : (0 <= hh <= 99)%Z -> (0 <= mi <= 99)%Z ->
  after_day y mo dd (c_T :: pad2 hh ++ c_colon :: pad2 mi ++ r4) =
  match sec_part r4 with Some (sec, z) => Some (mkDT y mo dd hh mi sec, z) | None => None end.
Proof.
  intros H M. unfold pad2. cbn [app]. unfold after_day.
  rewrite at_end_cons by reflexivity.
  change ((c_T =? 84)%N) with true. change ((c_colon =? 58)%N) with true. cbn [andb]. cbv beta iota.
  rewrite !two_ud_pad by auto. destruct (sec_part r4) as [[sec z]|]; reflexivity.
Qed.

Lemma after_month_end y mo : after_month y mo [] = Some (mkDT y mo 1 0 0 0, None).
Proof. reflexivity. Qed.

Lemma after_month_day y mo dd r3 : (0 <= dd <= 99)%Z ->
  after_month y mo (c_dash :: pad2 dd ++ r3) = after_day y mo dd r3.
Proof.
  intros H. unfold pad2. cbn [app]. unfold after_month.
  rewrite at_end_cons by reflexivity. change ((c_dash =? 45)%N) with true. cbv beta iota.
  rewrite two_ud_pad by auto. reflexivity.
Qed.

Lemma after_year_end y : after_year y [] = Some (mkDT y 1 1 0 0 0, None).
Proof. reflexivity. Qed.

Lemma after_year_month y mo r2 : (0 <= mo <= 99)%Z ->
  after_year y (c_dash :: pad2 mo ++ r2) = after_month y mo r2.
Proof.
  intros H. unfold pad2. cbn [app]. unfold after_year.
  rewrite at_end_cons by reflexivity. change ((c_dash =? 45)%N) with true. cbv beta iota.
  rewrite two_ud_pad by auto. reflexivity.
Qed.

Lemma groups_year y r1 : (0 <= y <= 9999)%Z -> w3c_groups (pad4 y ++ r1) = after_year y r1.
Proof.
  intros H. unfold pad4. cbn [app]. unfold w3c_groups.
  rewrite !digit_char_val by lia. f_equal. lia.
Qed.

(** ---- _parse_W3CDTF_to_datetime on the W3CDTF forms ---- *)

Lemma w3c_full_split t :
  w3c_full t = w3c_date (dt_year t) (dt_month t) (dt_day t) ++
               c_T :: pad2 (dt_hour t) ++ c_colon :: pad2 (dt_minute t) ++ c_colon :: pad2 (dt_second t).
Proof. reflexivity. Qed.

Lemma parse_of_groups s t z : w3c_groups s = Some (t, z) ->
  valid_datetime t = true -> (1 <= dt_year t <= 9999)%Z ->
  parse_w3cdtf s = match z with None => Ok t | Some off => offset_dt t off end.
Proof.
  intros G V Y. unfold parse_w3cdtf. rewrite G, V, (proj2 (in_py_range_iff t) Y). reflexivity.
Qed.

Lemma utc_of_zone t z : zone_ok z ->
  match zone_off z with None => Ok t | Some off => offset_dt t off end = utc_of t z.
Proof.
  destruct z as [| |neg hh mm]; try reflexivity. intros [H M].
  cbn [zone_off utc_of]. apply offset_dt_spec; auto.
Qed.

Lemma groups_date_prefix y m d r3 : (0 <= y <= 9999)%Z -> (0 <= m <= 99)%Z -> (0 <= d <= 99)%Z ->
  w3c_groups (w3c_date y m d ++ r3) = after_day y m d r3.
Proof.
  intros Y M D. unfold w3c_date. rewrite <- !app_assoc. cbn [app].
  rewrite groups_year by auto. rewrite <- app_assoc. cbn [app].
  rewrite after_year_month by auto. rewrite after_month_day by auto. reflexivity.
Qed.

Ltac norm_app := repeat (progress (cbn [app]; rewrite <- ?app_assoc)).

(** Any time granularity followed by any zone designator. *)
Lemma parse_time g t z : valid_datetime t = true -> (1 <= dt_year t <= 9999)%Z ->
  form_ok g t -> zone_ok z ->
  parse_w3cdtf (time_text g t ++ zone_str z) = utc_of t z.
Proof.
  intros V Y F Z. pose proof (valid_dt_bounds t V) as [Bm [Bd [Bh [Bmi Bs]]]].
  rewrite <- (utc_of_zone t z Z). apply parse_of_groups; auto.
  destruct g as [| |f]; cbn [time_text form_ok] in *.
  - unfold w3c_min. rewrite <- !app_assoc. rewrite groups_date_prefix by lia.
    norm_app.
    rewrite after_day_time by lia. rewrite sec_part_none by auto.
    rewrite <- F. rewrite mkDT_eta. reflexivity.
  - rewrite w3c_full_split. rewrite <- !app_assoc. rewrite groups_date_prefix by lia.
    norm_app.
    rewrite after_day_time by lia. rewrite sec_part_sec by lia.
    rewrite frac_tz_end_zone by auto. rewrite mkDT_eta. reflexivity.
  - destruct F as [Fn Fd].
    rewrite w3c_full_split. rewrite <- !app_assoc. rewrite groups_date_prefix by lia.
    norm_app.
    rewrite after_day_time by lia. rewrite sec_part_sec by lia.
    rewrite frac_tz_end_frac by auto. rewrite mkDT_eta. reflexivity.
Qed.

Lemma parse_date y m d : valid_date (y, m, d) = true -> (1 <= y <= 9999)%Z ->
  parse_w3cdtf (w3c_date y m d) = Ok (mkDT y m d 0 0 0).
Proof.
  intros V Y. pose proof (valid_date_datetime y m d V) as Vt.
  pose proof (valid_dt_bounds _ Vt) as [Bm [Bd _]]. cbn [dt_month dt_day] in *.
  rewrite (parse_of_groups _ (mkDT y m d 0 0 0) None); auto.
  rewrite <- (app_nil_r (w3c_date y m d)). rewrite groups_date_prefix by lia. reflexivity.
Qed.

Lemma parse_ym y m : (1 <= m <= 12)%Z -> (1 <= y <= 9999)%Z ->
  parse_w3cdtf (w3c_ym y m) = Ok (mkDT y m 1 0 0 0).
Proof.
  intros M Y.
  assert (V : valid_date (y, m, 1%Z) = true).
  { unfold valid_date, days_in_month. pose proof (dim_pos (is_leap y) m). lia. }
  pose proof (valid_date_datetime y m 1%Z V) as Vt.
  rewrite (parse_of_groups _ (mkDT y m 1 0 0 0) None); auto.
  unfold w3c_ym. rewrite groups_year by lia.
  rewrite <- (app_nil_r (pad2 m)). rewrite after_year_month by lia. reflexivity.
Qed.

Lemma parse_y y : (1 <= y <= 9999)%Z -> parse_w3cdtf (pad4 y) = Ok (mkDT y 1 1 0 0 0).
Proof.
  intros Y.
  assert (Vt : valid_datetime (mkDT y 1 1 0 0 0) = true) by (apply valid_date_datetime; reflexivity).
  rewrite (parse_of_groups _ (mkDT y 1 1 0 0 0) None); auto.
  rewrite <- (app_nil_r (pad4 y)). rewrite groups_year by lia. reflexivity.
Qed.

(** The text the setter writes is the seconds form followed by Z. *)
Lemma fmt_dt_full t : fmt_dt t = w3c_full t ++ [c_Z].
Proof. unfold fmt_dt, w3c_full. rewrite <- !app_assoc. cbn [app]. rewrite <- !app_assoc. reflexivity. Qed.

Lemma parse_fmt t : valid_datetime t = true -> (1 <= dt_year t <= 9999)%Z ->
  parse_w3cdtf (fmt_dt t) = Ok t.
Proof.
  intros V Y. rewrite fmt_dt_full. apply (parse_time TSec t ZUtc); cbn; auto.
Qed.

(** ---- the element as an association list ---- *)

Definition tag_pres (f : child -> child) : Prop := forall c, c_tag (f c) = c_tag c.

Lemma has_tag_pres f q c : tag_pres f -> has_tag q (f c) = has_tag q c.
Proof. intros T. unfold has_tag. rewrite T. reflexivity. Qed.

Lemma has_tag_new p q : has_tag q (new_child p) = prop_eqb q p.
Proof. reflexivity. Qed.

Lemma has_tag_both p q c : has_tag p c = true -> has_tag q c = true -> p = q.
Proof.
  unfold has_tag. destruct (c_tag c) as [r|n]; [|discriminate].
  intros A B. apply prop_eqb_eq in A, B. congruence.
Qed.

Lemma find_upd_other p q f st : tag_pres f -> p <> q ->
  find_child (upd p f st) q = find_child st q.
Proof.
  intros T N. unfold find_child. induction st as [|c st IH]; cbn [upd find].
  - rewrite has_tag_pres, has_tag_new by auto. rewrite prop_eqb_neq by congruence. reflexivity.
  - destruct (has_tag p c) eqn:Hp; cbn [find].
    + rewrite has_tag_pres by auto.
      destruct (has_tag q c) eqn:Hq; [exfalso; apply N; eapply has_tag_both; eauto|reflexivity].
    + rewrite IH. reflexivity.
Qed.

Definition cur_child (st : cpstate) (p : prop) : child :=
  match find_child st p with Some c => c | None => new_child p end.

Lemma find_upd_same p f st : tag_pres f ->
  find_child (upd p f st) p = Some (f (cur_child st p)).
Proof.
  intros T. unfold find_child, cur_child, find_child.
  induction st as [|c st IH]; cbn [upd find].
  - rewrite has_tag_pres, has_tag_new, prop_eqb_refl by auto. reflexivity.
  - destruct (has_tag p c) eqn:Hp; cbn [find].
    + rewrite has_tag_pres, Hp by auto. reflexivity.
    + rewrite Hp. exact IH.
Qed.

Lemma tag_pres_text s : tag_pres (set_c_text s).
Proof. intros c; reflexivity. Qed.
Lemma tag_pres_same : tag_pres same_child.
Proof. intros c; reflexivity. Qed.
Lemma tag_pres_dt s b : tag_pres (fun c => mkChild (c_tag c) s (c_xsi c || b)).
Proof. intros c; reflexivity. Qed.

(** Every setter leaves the state alone or goes through [upd] on its own tag with a
    tag-preserving modification. *)
Lemma set_prop_shape p v st :
  fst (set_prop p v st) = st \/
  exists f, tag_pres f /\ fst (set_prop p v st) = upd p f st.
Proof.
  unfold set_prop, set_text, set_datetime, set_revision.
  destruct (kind_of p) eqn:K.
  - destruct (py_str v); [|left; reflexivity].
    destruct (255 <? length a)%nat; [left; reflexivity|].
    destruct (forallb xml_ok a); right; eexists; split; [apply tag_pres_text|reflexivity|apply tag_pres_text|reflexivity].
  - destruct v; try (left; reflexivity).
    destruct (to_utc_naive d); [|left; reflexivity].
    right; eexists; split; [apply tag_pres_dt|reflexivity].
  - assert (p = Revision) by (destruct p; try discriminate; reflexivity). subst p.
    destruct v; try (left; reflexivity).
    destruct (z <? 1)%Z; [left; reflexivity|].
    destruct (py_str_int z); right; eexists; split; [apply tag_pres_text|reflexivity|apply tag_pres_same|reflexivity].
Qed.

Lemma get_prop_find st st' q :
  find_child st' q = find_child st q -> get_prop st' q = get_prop st q.
Proof.
  intros E. unfold get_prop, get_text, get_datetime, get_revision.
  destruct (kind_of q) eqn:K; try rewrite E; try reflexivity.
  assert (q = Revision) by (destruct q; try discriminate; reflexivity). subst q.
  rewrite E. reflexivity.
Qed.

(** Frame: assigning one property (successfully or not) leaves the other 14 readings alone. *)
Lemma frame p q v st : p <> q -> get_prop (fst (set_prop p v st)) q = get_prop st q.
Proof.
  intros N. apply get_prop_find.
  destruct (set_prop_shape p v st) as [E|[f [T E]]]; rewrite E; [reflexivity|].
  apply find_upd_other; auto.
Qed.

(** ---- strings ---- *)

Lemma set_text_ok p s st : kind_of p = KText -> (length s <= 255)%nat -> forallb xml_ok s = true ->
  set_prop p (VStr s) st = (upd p (set_c_text s) st, Ok tt).
Proof.
  intros K L X. unfold set_prop. rewrite K. unfold set_text. cbn [py_str].
  destruct (Nat.ltb_spec 255 (length s)); [lia|]. rewrite X. reflexivity.
Qed.

Lemma text_roundtrip p s st : kind_of p = KText -> (length s <= 255)%nat -> forallb xml_ok s = true ->
  snd (set_prop p (VStr s) st) = Ok tt /\
  get_prop (fst (set_prop p (VStr s) st)) p = Ok (OStr s).
Proof.
  intros K L X. rewrite set_text_ok by auto. split; [reflexivity|].
  cbn [fst]. unfold get_prop. rewrite K. unfold get_text.
  rewrite find_upd_same by apply tag_pres_text. reflexivity.
Qed.

Lemma text_limit p s st : kind_of p = KText -> (255 < length s)%nat ->
  set_prop p (VStr s) st = (st, Err ValueErr).
Proof.
  intros K L. unfold set_prop. rewrite K. unfold set_text. cbn [py_str].
  destruct (Nat.ltb_spec 255 (length s)); [reflexivity|lia].
Qed.

(** ---- datetimes ---- *)

Lemma valid_pydt_parts d : valid_pydt d = true ->
  valid_datetime (p_dt d) = true /\ (1 <= dt_year (p_dt d) <= 9999)%Z.
Proof.
  unfold valid_pydt. intros H. do 3 (apply andb_true_iff in H as [H ?]).
  apply andb_true_iff in H as [H Hr].
  split; auto. apply in_py_range_iff; auto.
Qed.

(** The UTC wall clock of the value assigned: a naive value as it is, an aware value minus
    its utcoffset. *)
Definition utc_wall (d : pydt) : datetime :=
  match p_tz d with None => p_dt d | Some o => add_seconds (p_dt d) (- o) end.

Lemma utc_wall_valid d : valid_pydt d = true -> valid_datetime (utc_wall d) = true.
Proof.
  intros V. destruct (valid_pydt_parts d V) as [Vt _]. unfold utc_wall.
  destruct (p_tz d); [apply add_seconds_valid|exact Vt].
Qed.

Lemma utc_wall_naive d : p_tz d = None -> utc_wall d = p_dt d.
Proof. intros E. unfold utc_wall. rewrite E. reflexivity. Qed.

Lemma to_utc_naive_spec d : valid_pydt d = true ->
  to_utc_naive d = if in_py_range (utc_wall d) then Ok (utc_wall d) else Err OverflowErr.
Proof.
  intros V. destruct (valid_pydt_parts d V) as [_ Yr]. unfold to_utc_naive, utc_wall.
  destruct (p_tz d); [reflexivity|]. rewrite (proj2 (in_py_range_iff _) Yr). reflexivity.
Qed.

Lemma date_roundtrip p d st : kind_of p = KDate -> valid_pydt d = true ->
  in_py_range (utc_wall d) = true ->
  snd (set_prop p (VDt d) st) = Ok tt /\
  get_prop (fst (set_prop p (VDt d) st)) p = Ok (ODt (Some (utc_wall d))).
Proof.
  intros K V R. pose proof (utc_wall_valid d V) as Vt.
  unfold set_prop. rewrite K. unfold set_datetime. rewrite to_utc_naive_spec, R by auto.
  split; [reflexivity|]. cbn [fst].
  unfold get_prop. rewrite K. unfold get_datetime.
  rewrite find_upd_same by apply tag_pres_dt. cbn [c_text].
  rewrite parse_fmt by (auto; apply in_py_range_iff; auto). reflexivity.
Qed.

(** Naive datetimes: every year 1..9999. *)
Lemma date_roundtrip_naive p d st : kind_of p = KDate -> valid_pydt d = true -> p_tz d = None ->
  snd (set_prop p (VDt d) st) = Ok tt /\
  get_prop (fst (set_prop p (VDt d) st)) p = Ok (ODt (Some (p_dt d))).
Proof.
  intros K V N. destruct (valid_pydt_parts d V) as [_ Yr].
  rewrite <- (utc_wall_naive d N). apply date_roundtrip; auto.
  rewrite utc_wall_naive by auto. apply in_py_range_iff; auto.
Qed.

(** Aware datetimes: the equivalent UTC wall clock, characterised by its instant. *)
Lemma date_roundtrip_aware p d o st : kind_of p = KDate -> valid_pydt d = true -> p_tz d = Some o ->
  let utc := add_seconds (p_dt d) (- o) in
  to_seconds utc = (to_seconds (p_dt d) - o)%Z /\
  (in_py_range utc = true ->
     snd (set_prop p (VDt d) st) = Ok tt /\
     get_prop (fst (set_prop p (VDt d) st)) p = Ok (ODt (Some utc))) /\
  (in_py_range utc = false -> set_prop p (VDt d) st = (st, Err OverflowErr)).
Proof.
  intros K V T utc. assert (E : utc_wall d = utc) by (unfold utc_wall; rewrite T; reflexivity).
  split; [subst utc; rewrite add_seconds_spec; lia|]. split; intros R.
  - rewrite <- E. apply date_roundtrip; auto. rewrite E; auto.
  - unfold set_prop. rewrite K. unfold set_datetime. rewrite to_utc_naive_spec, E, R by auto. reflexivity.
Qed.

Lemma date_type p v st : kind_of p = KDate -> (forall d, v <> VDt d) ->
  set_prop p v st = (st, Err ValueErr).
Proof.
  intros K N. unfold set_prop. rewrite K. unfold set_datetime.
  destruct v; try reflexivity. exfalso. apply (N d). reflexivity.
Qed.

(** ---- revision ---- *)

Definition dec_len (z : Z) : N := N.of_nat (length (dec_of_N (Z.abs_N z))).

Lemma py_str_int_pos z : (1 <= z)%Z -> (dec_len z <= 4300)%N ->
  py_str_int z = Ok (dec_of_N (Z.to_N z)).
Proof.
  intros P L. unfold py_str_int, dec_len in *. unfold max_str_digits.
  destruct (N.ltb_spec 4300 (N.of_nat (length (dec_of_N (Z.abs_N z))))); [lia|].
  destruct (Z.ltb_spec z 0); [lia|]. f_equal. f_equal. lia.
Qed.

Lemma py_int_dec n : (N.of_nat (length (dec_of_N n)) <= 4300)%N ->
  py_int (dec_of_N n) = Some (Z.of_N n).
Proof.
  intros L. destruct (dec_of_N_spec n) as [A [B C]].
  rewrite py_int_digits by auto. rewrite C. reflexivity.
Qed.

Lemma revision_roundtrip z st : (1 <= z)%Z -> (dec_len z <= 4300)%N ->
  snd (set_prop Revision (VInt z) st) = Ok tt /\
  get_prop (fst (set_prop Revision (VInt z) st)) Revision = Ok (OInt z).
Proof.
  intros P L. unfold set_prop. cbn [kind_of]. unfold set_revision.
  destruct (Z.ltb_spec z 1); [lia|]. rewrite py_str_int_pos by auto.
  split; [reflexivity|]. cbn [fst]. unfold get_prop. cbn [kind_of]. unfold get_revision.
  rewrite find_upd_same by apply tag_pres_text. cbn [c_text set_c_text].
  rewrite py_int_dec.
  - destruct (Z.ltb_spec (Z.of_N (Z.to_N z)) 0); [lia|]. f_equal. f_equal. lia.
  - unfold dec_len in L. replace (Z.to_N z) with (Z.abs_N z) by lia. exact L.
Qed.

Definition rev_acceptable (v : pyv) : bool :=
  match v with
  | VInt z => (1 <=? z)%Z
  | _ => false
  end.

Lemma revision_reject v st : rev_acceptable v = false ->
  set_prop Revision v st = (st, Err ValueErr).
Proof.
  unfold set_prop. cbn [kind_of]. unfold set_revision, rev_acceptable.
  destruct v; try reflexivity.
  intros H. destruct (Z.ltb_spec z 1); [reflexivity|lia].
Qed.

Lemma revision_read st :
  get_prop st Revision =
  Ok (OInt match find_child st Revision with
           | None => 0%Z
           | Some c => match py_int (c_text c) with
                       | Some z => if (z <? 0)%Z then 0%Z else z
                       | None => 0%Z
                       end
           end).
Proof. reflexivity. Qed.

(** ---- histories ---- *)

Definition op := (prop * pyv)%type.

Definition run (ops : list op) (st : cpstate) : cpstate :=
  fold_left (fun s o => fst (set_prop (fst o) (snd o) s)) ops st.

(** Assignments the property statement says must be accepted ... *)
Definition goodb (o : op) : bool :=
  match kind_of (fst o), snd o with
  | KText, VStr s => (length s <=? 255)%nat && forallb xml_ok s
  | KDate, VDt d => valid_pydt d && in_py_range (utc_wall d)
  | KRev, VInt z => (1 <=? z)%Z && (dec_len z <=? 4300)%N
  | _, _ => false
  end.

(** ... assignments it says must be refused with ValueError ... *)
Definition rejb (o : op) : bool :=
  match kind_of (fst o), snd o with
  | KText, VStr s => (255 <? length s)%nat
  | KDate, VDt _ => false
  | KDate, _ => true
  | KRev, v => negb (rev_acceptable v)
  | _, _ => false
  end.

(** ... and aware datetimes whose UTC time lies outside years 1..9999 (OverflowError). *)
Definition ovfb (o : op) : bool :=
  match kind_of (fst o), snd o with
  | KDate, VDt d => valid_pydt d && negb (in_py_range (utc_wall d))
  | _, _ => false
  end.

Definition reading_of (v : pyv) : outv :=
  match v with
  | VStr s => OStr s
  | VDt d => ODt (Some (utc_wall d))
  | VInt z => OInt z
  | _ => OStr []
  end.

Lemma good_set_get o st : goodb o = true ->
  snd (set_prop (fst o) (snd o) st) = Ok tt /\
  get_prop (fst (set_prop (fst o) (snd o) st)) (fst o) = Ok (reading_of (snd o)).
Proof.
  destruct o as [p v]. unfold goodb. cbn [fst snd].
  destruct (kind_of p) eqn:K; destruct v; try discriminate; intros H;
    apply andb_true_iff in H as [H1 H2]; cbn [reading_of].
  - apply text_roundtrip; auto. apply Nat.leb_le; auto.
  - apply date_roundtrip; auto.
  - assert (p = Revision) by (destruct p; try discriminate; reflexivity). subst p.
    apply revision_roundtrip; lia.
Qed.

Lemma rej_unchanged o st : rejb o = true ->
  set_prop (fst o) (snd o) st = (st, Err ValueErr).
Proof.
  destruct o as [p v]. unfold rejb. cbn [fst snd].
  destruct (kind_of p) eqn:K.
  - destruct v; try discriminate. intros H. apply text_limit; auto. apply Nat.ltb_lt; auto.
  - intros H. apply date_type; auto. intros d ->. discriminate.
  - assert (p = Revision) by (destruct p; try discriminate; reflexivity). subst p.
    intros H. apply revision_reject. apply negb_true_iff; auto.
Qed.

Lemma ovf_unchanged o st : ovfb o = true ->
  set_prop (fst o) (snd o) st = (st, Err OverflowErr).
Proof.
  destruct o as [p v]. unfold ovfb. cbn [fst snd].
  destruct (kind_of p) eqn:K; try discriminate. destruct v; try discriminate.
  intros H. apply andb_true_iff in H as [V R]. apply negb_true_iff in R.
  unfold set_prop. rewrite K. unfold set_datetime. rewrite to_utc_naive_spec, R by auto. reflexivity.
Qed.

(** The value of the last accepted assignment to [q], if any. *)
Definition last_good (ops : list op) (q : prop) : option pyv :=
  fold_left (fun acc o => if goodb o && prop_eqb (fst o) q then Some (snd o) else acc) ops None.

Lemma ovf_not_good o : ovfb o = true -> goodb o = false.
Proof.
  destruct o as [p v]. unfold ovfb, goodb. cbn [fst snd].
  destruct (kind_of p); try discriminate. destruct v; try discriminate.
  intros H. apply andb_true_iff in H as [V R]. apply negb_true_iff in R. rewrite V, R. reflexivity.
Qed.

Lemma history ops : forall st q,
  Forall (fun o => goodb o || rejb o || ovfb o = true) ops ->
  get_prop (run ops st) q =
  match last_good ops q with Some v => Ok (reading_of v) | None => get_prop st q end.
Proof.
  induction ops as [|o ops IH] using rev_ind; intros st q F.
  - reflexivity.
  - apply Forall_app in F as [F1 F2]. inversion F2 as [|? ? Ho _]; subst.
    unfold run, last_good. rewrite !fold_left_app. cbn [fold_left].
    fold (run ops st). fold (last_good ops q).
    specialize (IH st q F1).
    destruct (goodb o) eqn:G.
    + cbn [andb]. destruct (prop_eqb (fst o) q) eqn:E.
      * apply prop_eqb_eq in E. subst q. apply good_set_get; auto.
      * rewrite frame; auto. intros Heq. rewrite Heq, prop_eqb_refl in E. discriminate.
    + cbn [orb andb] in *. apply orb_true_iff in Ho as [Ho|Ho].
      * rewrite rej_unchanged by auto. cbn [fst]. exact IH.
      * rewrite ovf_unchanged by auto. cbn [fst]. exact IH.
Qed.

(** ---- validity ---- *)

Lemma has_tag_true p c : has_tag p c = true -> c_tag c = TProp p.
Proof.
  unfold has_tag. destruct (c_tag c) as [q|n]; [|discriminate].
  intros H. apply prop_eqb_eq in H. congruence.
Qed.

Lemma count_upd p q f st : tag_pres f ->
  count_tag q (upd p f st) =
  (count_tag q st + if prop_eqb q p && Nat.eqb (count_tag p st) 0 then 1 else 0)%nat.
Proof.
  intros T. unfold count_tag. induction st as [|c st IH]; cbn [upd filter length].
  - rewrite has_tag_pres, has_tag_new by auto. cbn [Nat.eqb]. rewrite andb_true_r.
    destruct (prop_eqb q p); reflexivity.
  - destruct (has_tag p c) eqn:Hp; cbn [filter].
    + rewrite has_tag_pres by auto. cbn [length Nat.eqb]. rewrite andb_false_r. destruct (has_tag q c); cbn [length]; lia.
    + destruct (has_tag q c); cbn [length]; rewrite IH; lia.
Qed.

Lemma forallb_upd (g : child -> bool) p f st :
  forallb g st = true -> (forall c, c_tag c = TProp p -> g (f c) = true) ->
  forallb g (upd p f st) = true.
Proof.
  intros H G. induction st as [|c st IH]; cbn [upd forallb].
  - rewrite G by reflexivity. reflexivity.
  - cbn [forallb] in H. apply andb_true_iff in H as [H1 H2].
    destruct (has_tag p c) eqn:Hp; cbn [forallb].
    + rewrite G by (apply has_tag_true; auto). rewrite H2. reflexivity.
    + rewrite H1, IH by auto. reflexivity.
Qed.

Lemma valid_upd p f st : tag_pres f -> valid_cp st = true ->
  (forall c, c_tag c = TProp p -> child_ok (f c) = true) ->
  valid_cp (upd p f st) = true.
Proof.
  intros T V G. unfold valid_cp in *. apply andb_true_iff in V as [V1 V2].
  apply andb_true_iff. split; [apply forallb_upd; auto|].
  rewrite forallb_forall in *. intros q Hq. specialize (V2 q Hq).
  rewrite count_upd by auto.
  destruct (prop_eqb q p) eqn:E; cbn [andb].
  - apply prop_eqb_eq in E. subst q. destruct (count_tag p st) as [|[|n]]; cbn in *; auto; discriminate.
  - rewrite Nat.add_0_r. exact V2.
Qed.

Lemma two_digits_pad v : (0 <= v <= 99)%Z ->
  two_digits (digit_char (v / 10)) (digit_char (v mod 10)) = Some v.
Proof.
  intros H. unfold two_digits. rewrite !digit_char_is_digit by lia. cbn [andb].
  f_equal. unfold digit_char. lia.
Qed.

Lemma collapse_id c m x : xml_space c = false -> xml_space x = false ->
  collapse_ws ((c :: m) ++ [x]) = (c :: m) ++ [x].
Proof.
  intros Hc Hx. unfold collapse_ws. set (s := (c :: m) ++ [x]).
  assert (D1 : drop_while xml_space s = s) by (subst s; cbn [app]; apply drop_while_hd; auto).
  rewrite D1.
  assert (R : rev s = x :: rev (c :: m)) by (subst s; apply rev_unit).
  rewrite R. rewrite drop_while_hd by auto. rewrite <- R. apply rev_involutive.
Qed.

Lemma digit_not_xml_space v : (0 <= v <= 9)%Z -> xml_space (digit_char v) = false.
Proof. unfold xml_space, digit_char. lia. Qed.

Lemma dec_value_pad4 y : (0 <= y <= 9999)%Z -> dec_value (pad4 y) = Z.to_N y.
Proof.
  intros H. unfold dec_value, pad4, digit_char. cbn [fold_left]. lia.
Qed.

Lemma xsd_year_pad4 y rest : (1 <= y <= 9999)%Z ->
  xsd_year (pad4 y ++ c_dash :: rest) = Some (y, c_dash :: rest).
Proof.
  intros H. unfold xsd_year.
  assert (Hd : forallb is_digit (pad4 y) = true) by (apply pad4_digits; lia).
  assert (N45 : (digit_char (y / 1000) =? 45)%N = false) by (unfold digit_char; lia).
  cbv zeta.
  match goal with |- context [take_while is_digit ?b] =>
    assert (Hb : b = pad4 y ++ c_dash :: rest)
      by (unfold pad4; cbn [app]; rewrite N45; reflexivity);
    rewrite !Hb end.
  rewrite take_while_app_stop, drop_while_app_stop by (auto; reflexivity).
  change (length (pad4 y)) with 4%nat. cbn [Nat.ltb Nat.leb andb].
  rewrite dec_value_pad4 by lia.
  destruct (Z.eqb_spec (Z.of_N (Z.to_N y)) 0); [lia|]. f_equal. f_equal. lia.
Qed.

Lemma xsd_dateTime_fmt t : valid_datetime t = true -> (1 <= dt_year t <= 9999)%Z ->
  xsd_dateTime (fmt_dt t) = true.
Proof.
  intros V Y. pose proof (valid_dt_bounds t V) as [Bm [Bd [Bh [Bmi Bs]]]].
  rewrite fmt_dt_full. unfold xsd_dateTime.
  assert (E : w3c_full t ++ [c_Z] =
    (digit_char (dt_year t / 1000) ::
       ([digit_char (dt_year t / 100 mod 10); digit_char (dt_year t / 10 mod 10); digit_char (dt_year t mod 10)] ++
        c_dash :: pad2 (dt_month t) ++ c_dash :: pad2 (dt_day t) ++ c_T :: pad2 (dt_hour t) ++
        c_colon :: pad2 (dt_minute t) ++ c_colon :: pad2 (dt_second t))) ++ [c_Z]) by reflexivity.
  rewrite E. rewrite collapse_id by (try apply digit_not_xml_space; try reflexivity; lia).
  rewrite <- E. unfold w3c_full. rewrite <- app_assoc, <- app_comm_cons.
  rewrite xsd_year_pad4 by lia.
  unfold pad2, c_dash, c_T, c_colon. cbn [app].
  unfold xsd_month_day. rewrite !two_digits_pad by lia.
  unfold valid_datetime, date_of in V. apply andb_true_iff in V as [Vd Vt]. rewrite Vd.
  unfold xsd_time. rewrite !two_digits_pad by lia.
  cbn [andb]. 
  assert (R : ((dt_hour t <=? 23) && (dt_minute t <=? 59) && (dt_second t <=? 59))%Z = true) by lia.
  rewrite R. reflexivity.
Qed.

Lemma child_ok_text p s b : kind_of p <> KDate -> child_ok (mkChild (TProp p) s b) = true.
Proof. destruct p; cbn; try reflexivity; congruence. Qed.

Lemma child_ok_date p t b : kind_of p = KDate -> valid_datetime t = true ->
  (1 <= dt_year t <= 9999)%Z ->
  child_ok (mkChild (TProp p) (fmt_dt t) (b || needs_xsi p)) = true.
Proof.
  intros K V Y. pose proof (xsd_dateTime_fmt t V Y) as X.
  destruct p; try discriminate; unfold child_ok; cbn [c_tag c_text c_xsi needs_xsi].
  - rewrite orb_true_r. unfold w3cdtf_ok. rewrite X. apply orb_true_r.
  - exact X.
  - rewrite orb_true_r. unfold w3cdtf_ok. rewrite X. apply orb_true_r.
Qed.

(** Every assignment of any value keeps a valid part valid, accepted or not. *)
Lemma valid_step p v st : valid_cp st = true ->
  (forall d, v = VDt d -> valid_pydt d = true) ->
  valid_cp (fst (set_prop p v st)) = true.
Proof.
  intros V G. unfold set_prop, set_text, set_datetime, set_revision.
  destruct (kind_of p) eqn:K.
  - destruct (py_str v); [|exact V]. destruct (255 <? length a)%nat; [exact V|].
    destruct (forallb xml_ok a); cbn [fst]; apply valid_upd; auto using tag_pres_text;
      intros c Hc; unfold set_c_text; rewrite Hc; apply child_ok_text; congruence.
  - destruct v; try exact V. pose proof (G d eq_refl) as Vd.
    rewrite to_utc_naive_spec by auto.
    destruct (in_py_range (utc_wall d)) eqn:R; [|exact V]. cbn [fst].
    apply valid_upd; auto using tag_pres_dt. intros c Hc. rewrite Hc.
    apply child_ok_date; auto; [apply utc_wall_valid; auto|apply in_py_range_iff; auto].
  - assert (p = Revision) by (destruct p; try discriminate; reflexivity). subst p.
    destruct v; try exact V.
    destruct (z <? 1)%Z; [exact V|].
    destruct (py_str_int z); cbn [fst]; apply valid_upd; auto using tag_pres_text, tag_pres_same;
      intros c Hc; unfold set_c_text, same_child; [rewrite Hc; reflexivity|].
    unfold child_ok. rewrite Hc. reflexivity.
Qed.

(** The only side condition: datetime values are genuine datetimes. *)
Definition date_guard (o : op) : Prop := forall d, snd o = VDt d -> valid_pydt d = true.

Lemma valid_history ops : forall st, valid_cp st = true -> Forall date_guard ops ->
  valid_cp (run ops st) = true.
Proof.
  induction ops as [|o ops IH]; intros st V F; [exact V|].
  inversion F as [|? ? Ho Fr]; subst. cbn [run fold_left]. apply IH; auto.
  apply valid_step; auto.
Qed.

(** ---- default part ---- *)

Lemma default_part_readings now : valid_pydt now = true -> p_tz now = None ->
  forall q, get_prop (default_part now) q =
    match q with
    | Title => Ok (OStr s_default_title)
    | LastModifiedBy => Ok (OStr s_python_pptx)
    | Revision => Ok (OInt 1)
    | Modified => Ok (ODt (Some (p_dt now)))
    | Created | LastPrinted => Ok (ODt None)
    | _ => Ok (OStr [])
    end.
Proof.
  intros V N q. destruct (valid_pydt_parts now V) as [_ Yr].
  change (default_part now) with
    (run [(Title, VStr s_default_title); (LastModifiedBy, VStr s_python_pptx);
          (Revision, VInt 1); (Modified, VDt now)] []).
  assert (G : goodb (Modified, VDt now) = true).
  { unfold goodb. cbn [fst snd kind_of]. rewrite V, utc_wall_naive by auto.
    rewrite (proj2 (in_py_range_iff _) Yr). reflexivity. }
  rewrite history.
  - unfold last_good. cbn [fold_left]. rewrite G.
    destruct q; try reflexivity.
    transitivity (@Ok outv (reading_of (VDt now))); [reflexivity|].
    cbn [reading_of]. rewrite utc_wall_naive by auto. reflexivity.
  - repeat constructor; try reflexivity. rewrite G. reflexivity.
Qed.

Lemma default_part_valid now : valid_pydt now = true -> valid_cp (default_part now) = true.
Proof.
  intros V.
  change (default_part now) with
    (run [(Title, VStr s_default_title); (LastModifiedBy, VStr s_python_pptx);
          (Revision, VInt 1); (Modified, VDt now)] []).
  apply valid_history; [reflexivity|].
  apply Forall_cons; [intros d E; discriminate|].
  apply Forall_cons; [intros d E; discriminate|].
  apply Forall_cons; [intros d E; discriminate|].
  apply Forall_cons; [|apply Forall_nil].
  intros d E. cbn [snd] in E. inversion E; subst. auto.
Qed.

(** ---- reading stored text ---- *)

(** The first child carrying the tag of [p] has text [s]. *)
Definition stored (st : cpstate) (p : prop) (s : str) : Prop :=
  exists c, find_child st p = Some c /\ c_text c = s.

Lemma read_date st p s : kind_of p = KDate -> stored st p s ->
  get_prop st p =
  match parse_w3cdtf s with
  | Ok t => Ok (ODt (Some t))
  | Err ValueErr => Ok (ODt None)
  | Err e => Err e
  end.
Proof.
  intros K [c [F T]]. unfold get_prop. rewrite K. unfold get_datetime. rewrite F, T.
  destruct (parse_w3cdtf s) as [t|[]]; reflexivity.
Qed.

(** Time of any granularity with any zone designator: the equivalent UTC wall clock. *)
Lemma read_time st p g t z :
  kind_of p = KDate -> stored st p (time_text g t ++ zone_str z) ->
  valid_datetime t = true -> (1 <= dt_year t <= 9999)%Z -> form_ok g t -> zone_ok z ->
  let utc := add_seconds t (- zone_seconds z) in
  to_seconds utc = (to_seconds t - zone_seconds z)%Z /\
  valid_datetime utc = true /\
  get_prop st p = if in_py_range utc then Ok (ODt (Some utc)) else Err OverflowErr.
Proof.
  intros K S V Y F Z utc. split; [|split].
  - subst utc. rewrite add_seconds_spec. lia.
  - apply add_seconds_valid.
  - rewrite (read_date st p _ K S). rewrite parse_time by auto.
    destruct z as [| |neg hh mm]; cbn [utc_of zone_seconds] in *.
    + subst utc. change (- 0)%Z with 0%Z. rewrite add_seconds_0 by auto.
      rewrite (proj2 (in_py_range_iff t) Y). reflexivity.
    + subst utc. change (- 0)%Z with 0%Z. rewrite add_seconds_0 by auto.
      rewrite (proj2 (in_py_range_iff t) Y). reflexivity.
    + fold utc. destruct (in_py_range utc); reflexivity.
Qed.

Lemma read_date_only st p y m d :
  kind_of p = KDate -> stored st p (w3c_date y m d) -> valid_date (y, m, d) = true ->
  (1 <= y <= 9999)%Z -> get_prop st p = Ok (ODt (Some (mkDT y m d 0 0 0))).
Proof. intros K S V Y. rewrite (read_date st p _ K S), parse_date by auto. reflexivity. Qed.

Lemma read_year_month st p y m :
  kind_of p = KDate -> stored st p (w3c_ym y m) -> (1 <= m <= 12)%Z ->
  (1 <= y <= 9999)%Z -> get_prop st p = Ok (ODt (Some (mkDT y m 1 0 0 0))).
Proof. intros K S V Y. rewrite (read_date st p _ K S), parse_ym by auto. reflexivity. Qed.

Lemma read_year st p y :
  kind_of p = KDate -> stored st p (pad4 y) ->
  (1 <= y <= 9999)%Z -> get_prop st p = Ok (ODt (Some (mkDT y 1 1 0 0 0))).
Proof. intros K S Y. rewrite (read_date st p _ K S), parse_y by auto. reflexivity. Qed.

Lemma granularity st p : kind_of p = KDate ->
  (forall y m d, stored st p (w3c_date y m d) -> valid_date (y, m, d) = true -> (1 <= y <= 9999)%Z ->
     get_prop st p = Ok (ODt (Some (mkDT y m d 0 0 0)))) /\
  (forall y m, stored st p (w3c_ym y m) -> (1 <= m <= 12)%Z -> (1 <= y <= 9999)%Z ->
     get_prop st p = Ok (ODt (Some (mkDT y m 1 0 0 0)))) /\
  (forall y, stored st p (pad4 y) -> (1 <= y <= 9999)%Z ->
     get_prop st p = Ok (ODt (Some (mkDT y 1 1 0 0 0)))).
Proof.
  intros K. repeat split; intros.
  - eapply read_date_only; eauto.
  - eapply read_year_month; eauto.
  - eapply read_year; eauto.
Qed.

(** ---- package level ---- *)

Lemma default_part_spec now :
  (forall st, core_properties (Some st) now = (Some st, st)) /\
  core_properties None now = (Some (default_part now), default_part now) /\
  (valid_pydt now = true -> p_tz now = None ->
   valid_cp (default_part now) = true /\
   forall q, get_prop (default_part now) q =
     match q with
     | Title => Ok (OStr s_default_title)
     | LastModifiedBy => Ok (OStr s_python_pptx)
     | Revision => Ok (OInt 1)
     | Modified => Ok (ODt (Some (p_dt now)))
     | Created | LastPrinted => Ok (ODt None)
     | _ => Ok (OStr [])
     end).
Proof.
  split; [reflexivity|]. split; [reflexivity|].
  intros V N. split; [apply default_part_valid|apply default_part_readings]; auto.
Qed.

(** ---- regression: the inputs on which the code failed before it was repaired ---- *)

Definition dt999 : pydt := mkPydt (mkDT 999 1 2 3 4 5) 0 None.

Lemma regress_year_999 :
  valid_pydt dt999 = true /\
  snd (set_prop Created (VDt dt999) []) = Ok tt /\
  get_prop (fst (set_prop Created (VDt dt999) [])) Created = Ok (ODt (Some (mkDT 999 1 2 3 4 5))) /\
  valid_cp (fst (set_prop Created (VDt dt999) [])) = true.
Proof. vm_compute. repeat split. Qed.

(** 2020-02-29T23:59:59+05:00 *)
Definition dt_aware : pydt := mkPydt (mkDT 2020 2 29 23 59 59) 0 (Some 18000%Z).

Lemma regress_aware :
  valid_pydt dt_aware = true /\
  get_prop (fst (set_prop Created (VDt dt_aware) [])) Created = Ok (ODt (Some (mkDT 2020 2 29 18 59 59))).
Proof. vm_compute. repeat split. Qed.

Lemma regress_revision_true : set_prop Revision (VBool true) [] = ([], Err ValueErr).
Proof. reflexivity. Qed.

Definition t2003 : datetime := mkDT 2003 12 31 10 14 55.

(** 2003-12-31T10:14+01:00 *)
Lemma regress_minutes :
  parse_w3cdtf (w3c_date 2003 12 31 ++ c_T :: pad2 10 ++ c_colon :: pad2 14 ++ off_str false 1 0) =
  Ok (mkDT 2003 12 31 9 14 0).
Proof. vm_compute. reflexivity. Qed.

(** 2003-12-31T10:14:55.5+01:00 *)
Lemma regress_fraction_offset :
  parse_w3cdtf (w3c_full t2003 ++ [46; 53]%N ++ off_str false 1 0) = Ok (mkDT 2003 12 31 9 14 55).
Proof. vm_compute. reflexivity. Qed.

(** 2003-12-31T10:14:55.1234Z *)
Lemma regress_fraction_z :
  parse_w3cdtf (w3c_full t2003 ++ [46; 49; 50; 51; 52; 90]%N) = Ok t2003.
Proof. vm_compute. reflexivity. Qed.

(** Behaviour outside the statement, kept on record.  0001-01-01T00:00:00+00:01: the UTC time is
    before year 1 and reading raises OverflowError.  Text with a code point lxml refuses
    erases the previous value before raising ValueError.  A final newline is tolerated and
    Unicode decimal digits are read. *)
Lemma note_offset_overflow :
  parse_w3cdtf (w3c_full (mkDT 1 1 1 0 0 0) ++ off_str false 0 1) = Err OverflowErr.
Proof. vm_compute. reflexivity. Qed.

Lemma note_nonxml_erases :
  let st := fst (set_prop Title (VStr [97]%N) []) in
  set_prop Title (VStr [65535]%N) st = ([mkChild (TProp Title) [] false], Err ValueErr).
Proof. vm_compute. reflexivity. Qed.

Lemma note_newline_and_digits :
  parse_w3cdtf (pad4 2003 ++ [10]%N) = Ok (mkDT 2003 1 1 0 0 0) /\
  parse_w3cdtf [1634; 1632; 1632; 1635]%N = Ok (mkDT 2003 1 1 0 0 0).
Proof. vm_compute. split; reflexivity. Qed.

(** ---- remaining statements in the form used by props/C18.v ---- *)

Lemma calendar_inverse :
  (forall dt, valid_date dt = true -> civil_of_ordinal (ordinal dt) = dt) /\
  (forall n, valid_date (civil_of_ordinal n) = true /\ ordinal (civil_of_ordinal n) = n).
Proof. split; [exact civil_ordinal|exact civil_of_ordinal_spec]. Qed.

Lemma add_seconds_char t k :
  to_seconds (add_seconds t k) = (to_seconds t + k)%Z /\ valid_datetime (add_seconds t k) = true /\
  (forall u, valid_datetime u = true -> to_seconds u = (to_seconds t + k)%Z -> u = add_seconds t k).
Proof.
  split; [apply add_seconds_spec|]. split; [apply add_seconds_valid|].
  intros u Vu E. apply to_seconds_inj; auto using add_seconds_valid.
  rewrite add_seconds_spec. exact E.
Qed.
