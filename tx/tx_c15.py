"""Translator for C15: regenerates coq/gen/GenC15.v from the working tree of /repo.

Reads
  * src/pptx/parts/image.py   Image.ext by AST: the dict literal, the header rules that precede the
                              lookup (format == X and blob[lo:hi] == bytes -> ext), the membership
                              test and the lookup -- any other statement is unmodelled;
                              Image._pil_props by AST: the straight-line code and the rules that drop
                              the dpi entry (format == X and tag N not in tag_v2);
  * pptx.opc.spec             image_content_types, default_content_types (by import);
  * pptx                      content_type_to_part_class_map rows whose class is ImagePart
                              (read from PartFactory.part_type_for, the table actually used).
Fail-closed: anything not understood becomes an entry of [unmodelled].
"""
import ast
import os
import sys

REPO = os.environ.get("VERIF_REPO", "/repo")
VERIF = os.path.dirname(os.path.dirname(os.path.abspath(__file__)))
sys.path.insert(0, os.path.join(REPO, "src"))


def lit(s):
    return "[" + "; ".join(str(ord(c)) for c in s) + "]%N" if s else "[]"


def pairs(name, rows):
    body = ";\n    ".join("(%s, %s)" % (lit(a), lit(b)) for a, b in rows)
    return "Definition %s : list (str * str) :=\n  [ %s ].\n" % (name, body)


def _is_name(n, name):
    return isinstance(n, ast.Name) and n.id == name


def _const(n, typ):
    return isinstance(n, ast.Constant) and isinstance(n.value, typ)


def _special_rule(node, fmtvar):
    """if <fmtvar> == "X" and (self._blob or b"")[lo:hi] == b"...": return "ext"  ->  (X, lo, bytes, ext)"""
    if not (isinstance(node, ast.If) and not node.orelse and len(node.body) == 1):
        return None
    ret = node.body[0]
    if not (isinstance(ret, ast.Return) and _const(ret.value, str)):
        return None
    t = node.test
    if not (isinstance(t, ast.BoolOp) and isinstance(t.op, ast.And) and len(t.values) == 2):
        return None
    c1, c2 = t.values
    if not (isinstance(c1, ast.Compare) and len(c1.ops) == 1 and isinstance(c1.ops[0], ast.Eq)
            and _is_name(c1.left, fmtvar) and _const(c1.comparators[0], str)):
        return None
    if not (isinstance(c2, ast.Compare) and len(c2.ops) == 1 and isinstance(c2.ops[0], ast.Eq)
            and _const(c2.comparators[0], bytes) and isinstance(c2.left, ast.Subscript)):
        return None
    sub = c2.left
    src = sub.value
    ok_src = (isinstance(src, ast.BoolOp) and isinstance(src.op, ast.Or) and len(src.values) == 2
              and isinstance(src.values[0], ast.Attribute) and _is_name(src.values[0].value, "self")
              and src.values[0].attr == "_blob" and _const(src.values[1], bytes) and src.values[1].value == b"")
    sl = sub.slice
    if not (ok_src and isinstance(sl, ast.Slice) and sl.step is None and _const(sl.lower, int) and _const(sl.upper, int)):
        return None
    lo, hi, magic = sl.lower.value, sl.upper.value, c2.comparators[0].value
    if lo < 0 or hi - lo != len(magic):
        return None
    return (c1.comparators[0].value, lo, magic, ret.value.value)


def ext_map_from_ast(unmodelled):
    """Image.ext must be: [docstring]; <map> = {literal}; <fmt> = self._format; zero or more header
    rules; if <fmt> not in <map>: ...raise ValueError...; return <map>[<fmt>].  Anything else is unmodelled."""
    path = os.path.join(REPO, "src", "pptx", "parts", "image.py")
    tree = ast.parse(open(path, encoding="utf-8").read())
    found, specials = [], []
    fns = [fn for cls in tree.body if isinstance(cls, ast.ClassDef) and cls.name == "Image"
           for fn in cls.body if isinstance(fn, ast.FunctionDef) and fn.name == "ext"]
    if len(fns) != 1:
        unmodelled.append("Image.ext: not found exactly once")
        return found, specials
    body = list(fns[0].body)
    if body and isinstance(body[0], ast.Expr) and _const(body[0].value, str):
        body = body[1:]
    var = fmtvar = None
    stage = 0
    for st in body:
        if stage == 0 and isinstance(st, ast.Assign) and isinstance(st.value, ast.Dict) and len(st.targets) == 1 \
                and isinstance(st.targets[0], ast.Name):
            var = st.targets[0].id
            for k, v in zip(st.value.keys, st.value.values):
                if _const(k, str) and _const(v, str):
                    found.append((k.value, v.value))
                else:
                    unmodelled.append("Image.ext: non-literal entry in the format map")
            stage = 1
        elif stage == 1 and isinstance(st, ast.Assign) and len(st.targets) == 1 and isinstance(st.targets[0], ast.Name) \
                and isinstance(st.value, ast.Attribute) and _is_name(st.value.value, "self") and st.value.attr == "_format":
            fmtvar = st.targets[0].id
            stage = 2
        elif stage == 2 and _special_rule(st, fmtvar):
            specials.append(_special_rule(st, fmtvar))
        elif stage == 2 and isinstance(st, ast.If) and not st.orelse and isinstance(st.test, ast.Compare) \
                and len(st.test.ops) == 1 and isinstance(st.test.ops[0], ast.NotIn) and _is_name(st.test.left, fmtvar) \
                and _is_name(st.test.comparators[0], var) and isinstance(st.body[-1], ast.Raise) \
                and isinstance(st.body[-1].exc, ast.Call) and getattr(st.body[-1].exc.func, "id", "") == "ValueError" \
                and all(isinstance(x, (ast.Assign, ast.Raise)) for x in st.body):
            stage = 3
        elif stage == 3 and isinstance(st, ast.Return) and isinstance(st.value, ast.Subscript) \
                and _is_name(st.value.value, var) and _is_name(st.value.slice, fmtvar):
            stage = 4
        else:
            unmodelled.append("Image.ext: statement at line %d not understood" % st.lineno)
    if stage != 4:
        unmodelled.append("Image.ext: expected map, format, header rules, membership test, lookup (stopped at stage %d)" % stage)
    if not found:
        unmodelled.append("Image.ext: format map not found")
    return found, specials


def dpi_drop_from_ast(unmodelled):
    """Image._pil_props must be the known straight-line code plus zero or more rules
    if format == "X" and N not in getattr(pil_image, "tag_v2", {}): dpi = None  ->  (X, N)"""
    path = os.path.join(REPO, "src", "pptx", "parts", "image.py")
    tree = ast.parse(open(path, encoding="utf-8").read())
    fns = [fn for cls in tree.body if isinstance(cls, ast.ClassDef) and cls.name == "Image"
           for fn in cls.body if isinstance(fn, ast.FunctionDef) and fn.name == "_pil_props"]
    rules = []
    if len(fns) != 1:
        unmodelled.append("Image._pil_props: not found exactly once")
        return rules
    body = list(fns[0].body)
    if body and isinstance(body[0], ast.Expr) and _const(body[0].value, str):
        body = body[1:]
    expect = ["stream = io.BytesIO(self._blob)", "pil_image = PIL_Image.open(stream)", "format = pil_image.format",
              "width_px, height_px = pil_image.size", "dpi = cast('tuple[int, int] | None', pil_image.info.get('dpi'))"]
    tail = ["stream.close()", "return (format, (width_px, height_px), dpi)"]
    texts = [ast.unparse(st) for st in body]
    if texts[:len(expect)] != expect or texts[-len(tail):] != tail:
        unmodelled.append("Image._pil_props: straight-line part differs from the modelled one")
        return rules
    for st in body[len(expect):len(body) - len(tail)]:
        ok = False
        if isinstance(st, ast.If) and not st.orelse and len(st.body) == 1 and ast.unparse(st.body[0]) == "dpi = None" \
                and isinstance(st.test, ast.BoolOp) and isinstance(st.test.op, ast.And) and len(st.test.values) == 2:
            c1, c2 = st.test.values
            if isinstance(c1, ast.Compare) and len(c1.ops) == 1 and isinstance(c1.ops[0], ast.Eq) and _is_name(c1.left, "format") \
                    and _const(c1.comparators[0], str) and isinstance(c2, ast.Compare) and len(c2.ops) == 1 \
                    and isinstance(c2.ops[0], ast.NotIn) and _const(c2.left, int) \
                    and ast.unparse(c2.comparators[0]) == "getattr(pil_image, 'tag_v2', {})":
                rules.append((c1.comparators[0].value, c2.left.value))
                ok = True
        if not ok:
            unmodelled.append("Image._pil_props: statement at line %d not understood" % st.lineno)
    return rules


def main():
    unmodelled = []
    em, specials = ext_map_from_ast(unmodelled)
    drops = dpi_drop_from_ast(unmodelled)
    import pptx  # noqa: F401  (registers the part classes)
    from pptx.opc.package import PartFactory
    from pptx.opc.spec import default_content_types, image_content_types
    from pptx.parts.image import ImagePart

    ict = list(image_content_types.items())
    dct = list(default_content_types)
    for row in dct:
        if not (isinstance(row, tuple) and len(row) == 2 and all(isinstance(t, str) for t in row)):
            unmodelled.append("default_content_types: odd row %r" % (row,))
    ipc = [ct for ct, cls in PartFactory.part_type_for.items() if cls is ImagePart]
    # subclasses of ImagePart registered for a content type would also carry a sha1
    for ct, cls in PartFactory.part_type_for.items():
        if cls is not ImagePart and isinstance(cls, type) and issubclass(cls, ImagePart):
            unmodelled.append("part class map: subclass of ImagePart registered for " + ct)
    out = ["(* GENERATED by tx/tx_c15.py from %s -- do not edit *)" % REPO,
           "From V.lib Require Import Prelude.",
           "Open Scope N_scope.",
           pairs("gen_ext_map", em),
           pairs("gen_image_content_types", ict),
           pairs("gen_default_content_types", [r for r in dct if isinstance(r, tuple) and len(r) == 2]),
           "Definition gen_ext_special : list (str * nat * list N * str) :=\n  [ %s ].\n" % ";\n    ".join(
               "(%s, %d%%nat, %s, %s)" % (lit(f), lo, "[" + "; ".join(str(x) for x in magic) + "]%N", lit(e))
               for f, lo, magic, e in specials) if specials else "Definition gen_ext_special : list (str * nat * list N * str) := [].\n",
           "Definition gen_dpi_drop : list (str * N) :=\n  [ %s ].\n" % ";\n    ".join("(%s, %d%%N)" % (lit(f), t) for f, t in drops)
           if drops else "Definition gen_dpi_drop : list (str * N) := [].\n",
           "Definition gen_imagepart_cts : list str :=\n  [ %s ].\n" % ";\n    ".join(lit(c) for c in ipc),
           "Definition n_unmodelled : nat := %d%%nat." % len(unmodelled)]
    for u in unmodelled:
        out.append("(* unmodelled: %s *)" % u.replace("(*", "( *").replace("*)", "* )").replace('"', "'"))
    text = "\n".join(out) + "\n"
    path = os.path.join(VERIF, "coq", "gen", "GenC15.v")
    old = open(path, encoding="utf-8").read() if os.path.exists(path) else None
    if old != text:
        with open(path, "w", encoding="utf-8") as f:
            f.write(text)
    print("tx_c15: %d formats, %d header rules, %d dpi-drop rules, %d image content types, %d defaults, %d ImagePart content types, %d unmodelled" % (
        len(em), len(specials), len(drops), len(ict), len(dct), len(ipc), len(unmodelled)))
    for u in unmodelled:
        print("  unmodelled:", u)


if __name__ == "__main__":
    main()
